"""E0 -- source model of /repo/hszinc: parsed modules, top-level bindings, constant
folding, class table, callee resolution.  Nothing is imported or executed."""
from __future__ import annotations

import ast
import os
import re

from .lang import Unsupported

REPO = os.environ.get('HSZINC_REPO', '/repo')
PKG = 'hszinc'


class AnalysisError(Exception):
    """Anchor vanished / construct not understood: exit 2, never a violation."""


class RegexConst(object):
    def __init__(self, pattern, flags, node=None):
        self.pattern = pattern
        self.flags = flags
        self.node = node

    def __repr__(self):
        return 'RegexConst(%r, %d)' % (self.pattern, self.flags)


class Opaque(object):
    def __init__(self, why):
        self.why = why

    def __repr__(self):
        return 'Opaque(%s)' % self.why


def norm(node):
    """Normalised statement text (formatting-, comment- and line-insensitive)."""
    if node is None:
        return ''
    if isinstance(node, str):
        return node
    try:
        return ast.unparse(node)
    except Exception:  # pragma: no cover
        return ast.dump(node)


def head(node, n=120):
    t = norm(node).split('\n')[0]
    return t if len(t) <= n else t[:n] + '…'


def _scope_nodes(fn):
    out = []
    stack = list(ast.iter_child_nodes(fn))
    while stack:
        n = stack.pop()
        out.append(n)
        if isinstance(n, (ast.FunctionDef, ast.AsyncFunctionDef, ast.Lambda, ast.ClassDef)):
            continue
        stack.extend(ast.iter_child_nodes(n))
    return out


def number_nodes(tree):
    """`_seq`: position of every node in program-text order of the canonical tree.  Rules that ask "does this come
    before that" use it; line numbers stop being an order once statements were moved by canonicalisation."""
    k = 0
    stack = [tree]
    while stack:
        n = stack.pop()
        n._seq = k
        k += 1
        stack.extend(reversed(list(ast.iter_child_nodes(n))))
    return tree


_KNOWN_FUNCS = None


def known_functions(modname):
    """module-level function names of `modname` on the reference tree (spec/known_functions.json)"""
    global _KNOWN_FUNCS
    if _KNOWN_FUNCS is None:
        import json
        import os
        with open(os.path.join(os.path.dirname(os.path.dirname(os.path.abspath(__file__))), 'spec', 'known_functions.json')) as f:
            _KNOWN_FUNCS = json.load(f)['functions']
    return set(_KNOWN_FUNCS.get(modname, ()))


def known_methods(modname):
    known_functions(modname)
    import json
    import os
    global _KNOWN_METHS
    if _KNOWN_METHS is None:
        with open(os.path.join(os.path.dirname(os.path.dirname(os.path.abspath(__file__))), 'spec', 'known_functions.json')) as f:
            _KNOWN_METHS = json.load(f).get('methods', {})
    return {c: set(v) for c, v in _KNOWN_METHS.get(modname, {}).items()}


_KNOWN_METHS = None


def canonicalise(tree, modname=None):
    """`_canon_steps`, with new single-use private helper functions read at their call site (`_inline_helpers`)
    and the steps repeated on the result.  Functions the reference tree already has keep their own identity: the
    rules name them."""
    _canon_steps(tree)
    known = known_functions(modname) if modname else set()
    kmeth = known_methods(modname) if modname else None
    for _ in range(8):
        a = _inline_helpers(tree, known)
        b = _inline_methods(tree, kmeth) if kmeth is not None else False
        if not (a or b):
            break
        _canon_steps(tree)
    return tree


def _inline_methods(tree, known):
    """(h') the same for a NEW private method `_h(self, p1..pn)` of a class (not on the reference tree, no decorator,
    not defined by another class of the module) that the module only ever mentions as a call `self._h(a1..an)` made
    as a whole statement (`self._h(..)`, `v = self._h(..)`, `return self._h(..)`) from a method of the same class:
    every call site is replaced by the body, and the definition is dropped.  All sites or none."""
    import copy
    if not isinstance(tree, ast.Module):
        return False
    changed = False
    classes = [c for c in tree.body if isinstance(c, ast.ClassDef)]
    defined = {}
    for c in classes:
        for f in c.body:
            if isinstance(f, ast.FunctionDef):
                defined.setdefault(f.name, []).append(c.name)
    for c in classes:
        for h in [f for f in c.body if isinstance(f, ast.FunctionDef)]:
            if not (h.name.startswith('_') and not h.name.startswith('__')) or h.decorator_list or h.name in known.get(c.name, ()):
                continue
            if len(defined.get(h.name, [])) != 1 or _fn_params(h) is None or not _fn_params(h):
                continue
            # every mention of the name
            mentions = []
            for n in ast.walk(tree):
                if isinstance(n, ast.Attribute) and n.attr == h.name:
                    mentions.append(n)
                elif isinstance(n, ast.Name) and n.id == h.name:
                    mentions.append(n)
                elif isinstance(n, ast.Constant) and isinstance(n.value, str) and h.name in n.value:
                    mentions.append(n)
            if not mentions:
                continue
            plan = []
            ok = True
            for caller in [f for f in c.body if isinstance(f, ast.FunctionDef) and f is not h]:
                if not caller.args.args:
                    continue
                recv = caller.args.args[0].arg
                todo = [caller]
                while todo and ok:
                    node = todo.pop()
                    for field in ('body', 'orelse', 'finalbody', 'handlers'):
                        b = getattr(node, field, None)
                        if not isinstance(b, list):
                            continue
                        if field == 'handlers':
                            todo.extend(b)
                            continue
                        for st in b:
                            if isinstance(st, (ast.FunctionDef, ast.AsyncFunctionDef, ast.ClassDef)):
                                continue
                            todo.append(st)
                            call = st.value if isinstance(st, (ast.Return, ast.Assign, ast.Expr)) else None
                            if isinstance(call, ast.Call) and isinstance(call.func, ast.Attribute) and call.func.attr == h.name \
                                    and isinstance(call.func.value, ast.Name) and call.func.value.id == recv:
                                fake = ast.Call(func=call.func, args=[ast.Name(id=recv, ctx=ast.Load())] + list(call.args),
                                                keywords=call.keywords)
                                new = _inlined_body(h, fake, st, caller, copy)
                                if new is None:
                                    ok = False
                                    break
                                plan.append((b, st, new, call.func))
            if not ok or not plan or {id(x[3]) for x in plan} != {id(m_) for m_ in mentions}:
                continue
            for b, st, new, _ in plan:
                i = b.index(st)
                b[i:i + 1] = new
            c.body.remove(h)
            changed = True
    if changed:
        ast.fix_missing_locations(tree)
    return changed


def _fn_params(fn):
    a = fn.args
    if a.vararg or a.kwarg or a.kwonlyargs or a.defaults or a.kw_defaults or a.posonlyargs:
        return None
    return [x.arg for x in a.args]


def _binds(node):
    """names bound inside `node` (a nested scope): parameters, stores, handler names, imports, defs"""
    out = set()
    for n in ast.walk(node):
        if isinstance(n, ast.arg):
            out.add(n.arg)
        elif isinstance(n, ast.Name) and isinstance(n.ctx, (ast.Store, ast.Del)):
            out.add(n.id)
        elif isinstance(n, ast.ExceptHandler) and n.name:
            out.add(n.name)
        elif isinstance(n, (ast.Import, ast.ImportFrom)):
            for al in n.names:
                out.add((al.asname or al.name).split('.')[0])
        elif isinstance(n, (ast.FunctionDef, ast.AsyncFunctionDef, ast.ClassDef)):
            out.add(n.name)
    return out


def _inline_helpers(tree, known=()):
    """(h) A module-level function `_h(p1..pn)` (private name, no decorator, plain positional parameters, no
    yield / global / nonlocal) that the module only mentions in calls made as whole statements (all of them, or none are
    touched), `return _h(a1..an)` or `v = _h(a1..an)` /
    `_h(a1..an)` with plain local names as arguments, is read at that call site: its body replaces the statement,
    parameters renamed to the argument names, its other locals renamed where they would meet a name of the caller.
    The second form needs a helper whose only `return` is its last statement and that does not rebind a parameter.
    The definition, now unreferenced, is dropped.  Returns True when a site changed."""
    import copy
    if not isinstance(tree, ast.Module):
        return False
    helpers = {}
    for st in tree.body:
        if isinstance(st, ast.FunctionDef) and st.name.startswith('_') and not st.name.startswith('__') \
                and not st.decorator_list and _fn_params(st) is not None and st.name not in known:
            helpers[st.name] = st
    if not helpers:
        return False
    _hoist_helper_calls(tree, helpers)
    mentions = {}
    for n in ast.walk(tree):
        if isinstance(n, ast.Name) and n.id in helpers:
            mentions.setdefault(n.id, []).append(n)
        elif isinstance(n, ast.Constant) and isinstance(n.value, str):
            for h in helpers:
                if h in n.value:
                    mentions.setdefault(h, []).append(n)
        elif isinstance(n, ast.Attribute) and n.attr in helpers:
            mentions.setdefault(n.attr, []).append(n)
        elif isinstance(n, ast.alias) and (n.name in helpers or n.asname in helpers):
            mentions.setdefault(n.name if n.name in helpers else n.asname, []).append(n)
    changed = False
    for hname, h in sorted(helpers.items()):
        ms = mentions.get(hname, [])
        if not ms:
            continue
        plan = []
        ok = True
        for fn in [n for n in ast.walk(tree) if isinstance(n, ast.FunctionDef) and n is not h]:
            if fn in _nested_defs(h):
                ok = False
                break
            todo = [fn]
            while todo and ok:
                node = todo.pop()
                for field in ('body', 'orelse', 'finalbody', 'handlers'):
                    b = getattr(node, field, None)
                    if not isinstance(b, list):
                        continue
                    if field == 'handlers':
                        todo.extend(b)
                        continue
                    for st in b:
                        if isinstance(st, (ast.FunctionDef, ast.AsyncFunctionDef, ast.ClassDef)):
                            continue
                        todo.append(st)
                        call = st.value if isinstance(st, (ast.Return, ast.Assign, ast.Expr)) else None
                        if isinstance(call, ast.Call) and isinstance(call.func, ast.Name) and call.func.id == hname:
                            new = _inlined_body(h, call, st, fn, copy)
                            if new is None:
                                ok = False
                                break
                            plan.append((b, st, new, call.func))
        # every mention of the name must be one of the call sites read here (all sites or none)
        if not ok or not plan or {id(x[3]) for x in plan} != {id(m_) for m_ in ms} or len(plan) != len(ms):
            continue
        for b, st, new, _ in plan:
            i = b.index(st)
            b[i:i + 1] = new
        tree.body.remove(h)            # nothing names the definition any more
        changed = True
    if changed:
        ast.fix_missing_locations(tree)
    return changed


def _hoist_helper_calls(tree, helpers):
    """`return C % _h(a)` / `v = _h(a) + C`  ->  `_hv = _h(a); return C % _hv`: a call to a new helper that sits inside
    the value of a return / assignment, under binary operators whose other operand is a constant or a plain name (so
    nothing with an effect is evaluated before the call), is given a statement of its own."""
    k = [0]
    for fn in [n for n in ast.walk(tree) if isinstance(n, ast.FunctionDef)]:
        todo = [fn]
        while todo:
            node = todo.pop()
            for field in ('body', 'orelse', 'finalbody', 'handlers'):
                b = getattr(node, field, None)
                if not isinstance(b, list):
                    continue
                if field == 'handlers':
                    todo.extend(b)
                    continue
                i = 0
                while i < len(b):
                    st = b[i]
                    if isinstance(st, (ast.FunctionDef, ast.AsyncFunctionDef, ast.ClassDef)):
                        i += 1
                        continue
                    todo.append(st)
                    if isinstance(st, (ast.Return, ast.Assign)) and st.value is not None and not (
                            isinstance(st.value, ast.Call) and isinstance(st.value.func, ast.Name) and st.value.func.id in helpers):
                        # descend through BinOps with a harmless other operand
                        parent, attr, e = st, 'value', st.value
                        while isinstance(e, ast.BinOp):
                            if isinstance(e.left, (ast.Constant, ast.Name)) and not isinstance(e.right, (ast.Constant, ast.Name)):
                                parent, attr, e = e, 'right', e.right
                            elif isinstance(e.right, (ast.Constant, ast.Name)) and not isinstance(e.left, (ast.Constant, ast.Name)):
                                parent, attr, e = e, 'left', e.left
                            else:
                                break
                        if parent is not st and isinstance(e, ast.Call) and isinstance(e.func, ast.Name) and e.func.id in helpers \
                                and e.func.id != fn.name:
                            name = '_hv%d' % k[0]
                            k[0] += 1
                            setattr(parent, attr, ast.copy_location(ast.Name(id=name, ctx=ast.Load()), e))
                            b.insert(i, ast.copy_location(ast.Assign(targets=[ast.Name(id=name, ctx=ast.Store())], value=e), st))
                            i += 1
                    i += 1


def _nested_defs(fn):
    return [n for n in ast.walk(fn) if isinstance(n, ast.FunctionDef) and n is not fn]


def _inlined_body(h, call, st, fn, copy):
    params = _fn_params(h)
    if call.keywords or len(call.args) != len(params) or any(isinstance(a, ast.Starred) for a in call.args):
        return None
    named = [(p, a.id) for p, a in zip(params, call.args) if isinstance(a, ast.Name)]
    exprs = [(p, a) for p, a in zip(params, call.args) if not isinstance(a, ast.Name)]
    args = [a for _, a in named]
    if len(set(args)) != len(args):
        return None
    for _, a in exprs:
        if any(isinstance(x, (ast.Lambda, ast.GeneratorExp, ast.ListComp, ast.SetComp, ast.DictComp, ast.NamedExpr, ast.Yield,
                              ast.YieldFrom, ast.Await)) for x in ast.walk(a)):
            return None
    body = h.body
    if body and isinstance(body[0], ast.Expr) and isinstance(body[0].value, ast.Constant) and isinstance(body[0].value.value, str):
        body = body[1:]
    if not body:
        return None
    own = _scope_nodes(h)
    for n in ast.walk(h):
        if isinstance(n, (ast.Yield, ast.YieldFrom, ast.Await, ast.Global, ast.Nonlocal)):
            return None
        if isinstance(n, ast.Name) and n.id in ('locals', 'vars', 'exec', 'eval', 'super', '__class__'):
            return None
    stored = set()
    for n in own:
        if isinstance(n, ast.Name) and isinstance(n.ctx, (ast.Store, ast.Del)):
            stored.add(n.id)
        elif isinstance(n, ast.ExceptHandler) and n.name:
            stored.add(n.name)
        elif isinstance(n, (ast.Import, ast.ImportFrom, ast.FunctionDef, ast.AsyncFunctionDef, ast.ClassDef)):
            return None
    tail_form = isinstance(st, ast.Return)
    rebound = stored & {p for p, _ in named}
    if not tail_form:
        # a rebound parameter writes the caller's variable: harmless when that variable is the one the call's result is
        # assigned to anyway (`x = h(x, ...)`)
        tgt = st.targets[0].id if isinstance(st, ast.Assign) and len(st.targets) == 1 and isinstance(st.targets[0], ast.Name) else None
        if rebound and not all(a == tgt for p, a in named if p in rebound):
            # otherwise the parameter becomes a local of its own, initialised from the caller's variable
            moved = [(p, a) for p, a in named if p in rebound and a != tgt]
            named = [(p, a) for p, a in named if (p, a) not in moved]
            exprs = exprs + [(p, ast.Name(id=a, ctx=ast.Load())) for p, a in moved]
            args = [a for _, a in named]
            rebound = stored & {p for p, _ in named}
        rets = [n for n in own if isinstance(n, ast.Return)]
        if len(rets) > 1 or (rets and rets[0] is not body[-1]):
            return None
    caller_names = {n.id for n in ast.walk(fn) if isinstance(n, ast.Name)} | {a.arg for a in ast.walk(fn) if isinstance(a, ast.arg)}
    if tail_form and rebound:
        # a rebound parameter writes the caller's variable: harmless only when no nested scope of the caller reads it
        hit = {a for p, a in named if p in rebound}
        for n in ast.walk(fn):
            if n is not fn and isinstance(n, (ast.FunctionDef, ast.Lambda, ast.GeneratorExp, ast.ListComp, ast.SetComp, ast.DictComp)):
                if {x.id for x in ast.walk(n) if isinstance(x, ast.Name)} & hit:
                    return None
    ren = dict(named)
    # parameters bound to an expression and the helper's other locals become locals of the caller: renamed where
    # they would meet one of its names
    for v in sorted((stored - {p for p, _ in named}) | {p for p, _ in exprs}):
        if v in caller_names or v in args:
            ren[v] = '%s_%s' % (v, h.name.strip('_'))
    # a nested scope of the helper that binds a renamed name would need scope-aware renaming: leave such helpers alone
    for n in ast.walk(h):
        if n is not h and isinstance(n, (ast.Lambda, ast.GeneratorExp, ast.ListComp, ast.SetComp, ast.DictComp)):
            if _binds(n) & (set(ren) | set(ren.values())):
                return None
    new = copy.deepcopy(body)
    for stn in new:
        for n in ast.walk(stn):
            if isinstance(n, ast.Name) and n.id in ren:
                n.id = ren[n.id]
            elif isinstance(n, ast.ExceptHandler) and n.name in ren:
                n.name = ren[n.name]
    prelude = [ast.copy_location(ast.Assign(targets=[ast.Name(id=ren.get(p, p), ctx=ast.Store())], value=a), st) for p, a in exprs]
    if tail_form:
        if not _terminates(new):
            new.append(ast.copy_location(ast.Return(value=None), st))
        return prelude + new
    last = new[-1]
    if isinstance(last, ast.Return):
        value = last.value if last.value is not None else ast.Constant(value=None)
        new = new[:-1]
    else:
        value = ast.Constant(value=None)
    if isinstance(st, ast.Assign):
        new.append(ast.copy_location(ast.Assign(targets=st.targets, value=value), st))
    else:
        new.append(ast.copy_location(ast.Expr(value=value), st))
    return prelude + new


def _optional_args_by_keyword(tree):
    """(m) in a call of a plain function defined once at the top level of the same module, an argument bound
    positionally to a parameter that has a default is written by keyword:  dump_grid(g, mode)  ->  dump_grid(g, mode=mode)
    (the repository's own style; the rules name `version=` / `mode=` arguments).  Calls with * or ** are left alone."""
    if not isinstance(tree, ast.Module):
        return
    sigs = {}
    counts = {}
    for n in ast.walk(tree):
        if isinstance(n, ast.FunctionDef):
            counts[n.name] = counts.get(n.name, 0) + 1
        elif isinstance(n, (ast.Assign, ast.AugAssign, ast.For, ast.With, ast.Import, ast.ImportFrom, ast.arg, ast.Global)):
            pass
    for st in tree.body:
        if isinstance(st, ast.FunctionDef) and counts.get(st.name) == 1 and not st.args.vararg and not st.args.posonlyargs \
                and not st.decorator_list:
            params = [a.arg for a in st.args.args]
            sigs[st.name] = (params, len(params) - len(st.args.defaults))
    if not sigs:
        return
    # a name that is also bound some other way (assignment, parameter, import, loop variable) is not resolved
    for n in ast.walk(tree):
        if isinstance(n, ast.Name) and isinstance(n.ctx, (ast.Store, ast.Del)) and n.id in sigs:
            sigs.pop(n.id, None)
        elif isinstance(n, ast.arg) and n.arg in sigs:
            sigs.pop(n.arg, None)
        elif isinstance(n, (ast.Import, ast.ImportFrom)):
            for a in n.names:
                sigs.pop(a.asname or a.name.split('.')[0], None)
    for n in ast.walk(tree):
        if isinstance(n, ast.Call) and isinstance(n.func, ast.Name) and n.func.id in sigs \
                and not any(isinstance(a, ast.Starred) for a in n.args) and all(k.arg for k in n.keywords):
            params, nreq = sigs[n.func.id]
            if len(n.args) <= nreq or len(n.args) > len(params):
                continue
            extra = n.args[nreq:]
            names = params[nreq:nreq + len(extra)]
            if set(names) & {k.arg for k in n.keywords}:
                continue
            n.args = n.args[:nreq]
            n.keywords = [ast.keyword(arg=a, value=v) for a, v in zip(names, extra)] + list(n.keywords)


_FSPEC = None


def _fstrings_to_percent(tree):
    """(l) an f-string whose replacement fields are `{e!s}`, `{e!r}`, `{e}` (no format spec) or `{e:<flags><width><.prec>f|x|X}`
    is the %-format expression it abbreviates:  f'C({a:f},{b:f})'  ->  'C(%f,%f)' % (a, b).   `{e}` is format(e, ''),
    which is str(e) for every class that does not define __format__ (Model refuses to analyse a tree that does).
    Other f-strings are left alone (the rules then cannot decide, never guess)."""
    import re
    global _FSPEC
    if _FSPEC is None:
        _FSPEC = re.compile(r'^([+ #0]*)(\d*)(\.\d+)?([fxX])$')
    for node in ast.walk(tree):
        if not isinstance(node, ast.JoinedStr):
            continue
        if isinstance(getattr(node, '_parent_fs', None), ast.FormattedValue):
            continue
        fmt = ''
        args = []
        ok = True
        for v in node.values:
            if isinstance(v, ast.Constant) and isinstance(v.value, str):
                fmt += v.value.replace('%', '%%')
            elif isinstance(v, ast.FormattedValue):
                spec = v.format_spec
                if spec is None:
                    if v.conversion in (-1, ord('s')):
                        fmt += '%s'
                    elif v.conversion == ord('r'):
                        fmt += '%r'
                    else:
                        ok = False
                        break
                else:
                    if v.conversion != -1 or not (isinstance(spec, ast.JoinedStr) and len(spec.values) == 1
                                                  and isinstance(spec.values[0], ast.Constant)):
                        ok = False
                        break
                    m = _FSPEC.match(spec.values[0].value)
                    if not m:
                        ok = False
                        break
                    fmt += '%' + spec.values[0].value
                args.append(v.value)
            else:
                ok = False
                break
        if not ok or not args:
            if ok and not args:
                const = ast.Constant(value=''.join(v.value for v in node.values))
                node.__class__ = ast.Constant
                keep = {k: getattr(node, k) for k in ('lineno', 'col_offset', 'end_lineno', 'end_col_offset') if hasattr(node, k)}
                node.__dict__.clear()
                node.value = const.value
                node.kind = None
                node.__dict__.update(keep)
            continue
        keep = {k: getattr(node, k) for k in ('lineno', 'col_offset', 'end_lineno', 'end_col_offset') if hasattr(node, k)}
        left = ast.Constant(value=fmt, kind=None, **keep)
        # one field: the rules read `'%s' % x` as str(x) (x not a tuple), which is what the f-string does for every x
        right = ast.Tuple(elts=args, ctx=ast.Load(), **keep) if len(args) != 1 or isinstance(args[0], ast.Tuple) else args[0]
        node.__class__ = ast.BinOp
        node.__dict__.clear()
        node.left = left
        node.op = ast.Mod()
        node.right = right
        node.__dict__.update(keep)


def _canon_steps(tree):
    """Behaviour-preserving normal form applied to every module before any rule looks at it, so that the
    rules see one shape for the common equivalent spellings:

      (a) `v = e; return v`  ->  `return e`      (v a plain local used nowhere else in the function)
      (b) `if not c: A else: B`  ->  `if c: B else: A`      (B not an elif chain)
      (c) `if a: (if b: S)`  ->  `if a and b: S`      (neither has an else)

    Line numbers of the surviving nodes are kept."""
    _fstrings_to_percent(tree)
    _optional_args_by_keyword(tree)
    for node in ast.walk(tree):
        # (j) `<literal> == x` / `None is x`  ->  `x == <literal>` / `x is None`
        if isinstance(node, ast.Compare) and len(node.ops) == 1 and isinstance(node.ops[0], (ast.Eq, ast.NotEq, ast.Is, ast.IsNot)) \
                and isinstance(node.left, ast.Constant) and not isinstance(node.comparators[0], ast.Constant):
            node.left, node.comparators[0] = node.comparators[0], node.left
        #     `NA is x`  ->  `x is NA`   (an ALL-CAPS name is a module-level singleton by the repository's convention)
        elif isinstance(node, ast.Compare) and len(node.ops) == 1 and isinstance(node.ops[0], (ast.Is, ast.IsNot)) \
                and isinstance(node.left, ast.Name) and node.left.id.isupper() \
                and not (isinstance(node.comparators[0], ast.Name) and node.comparators[0].id.isupper()) \
                and not isinstance(node.comparators[0], ast.Constant):
            node.left, node.comparators[0] = node.comparators[0], node.left
    # (k) a conditional expression that is the whole value of a return / a one-target assignment is the if statement
    #     it abbreviates:  return A if c else B  ->  if c: return A else: return B
    again = True
    while again:
        again = False
        for node in ast.walk(tree):
            for field in ('body', 'orelse', 'finalbody'):
                b = getattr(node, field, None)
                if not (isinstance(b, list) and b and isinstance(b[0], ast.stmt)):
                    continue
                for i, st in enumerate(b):
                    if isinstance(st, ast.Return) and isinstance(st.value, ast.IfExp):
                        e = st.value
                        b[i] = ast.copy_location(ast.If(test=e.test, body=[ast.copy_location(ast.Return(value=e.body), st)],
                                                        orelse=[ast.copy_location(ast.Return(value=e.orelse), st)]), st)
                        again = True
                    elif isinstance(st, ast.Assign) and len(st.targets) == 1 and isinstance(st.value, ast.IfExp) \
                            and isinstance(st.targets[0], (ast.Name, ast.Attribute)):
                        e = st.value
                        import copy as _copy
                        b[i] = ast.copy_location(ast.If(test=e.test,
                                                        body=[ast.copy_location(ast.Assign(targets=[st.targets[0]], value=e.body), st)],
                                                        orelse=[ast.copy_location(ast.Assign(targets=[_copy.deepcopy(st.targets[0])],
                                                                                             value=e.orelse), st)]), st)
                        again = True
            for h in getattr(node, 'handlers', []) or []:
                for i, st in enumerate(h.body):
                    if isinstance(st, ast.Return) and isinstance(st.value, ast.IfExp):
                        e = st.value
                        h.body[i] = ast.copy_location(ast.If(test=e.test, body=[ast.copy_location(ast.Return(value=e.body), st)],
                                                             orelse=[ast.copy_location(ast.Return(value=e.orelse), st)]), st)
                        again = True
    # `x = x` says nothing; neither does `else: pass`
    for node in ast.walk(tree):
        for field in ('body', 'orelse', 'finalbody'):
            b = getattr(node, field, None)
            if isinstance(b, list) and any(isinstance(x, ast.Assign) and len(x.targets) == 1 and isinstance(x.targets[0], ast.Name)
                                           and isinstance(x.value, ast.Name) and x.value.id == x.targets[0].id for x in b):
                kept = [x for x in b if not (isinstance(x, ast.Assign) and len(x.targets) == 1 and isinstance(x.targets[0], ast.Name)
                                             and isinstance(x.value, ast.Name) and x.value.id == x.targets[0].id)]
                b[:] = kept if (kept or field != 'body') else [ast.Pass()]
    for node in ast.walk(tree):
        if isinstance(node, (ast.If, ast.For, ast.While)) and node.orelse and all(isinstance(x, ast.Pass) for x in node.orelse):
            node.orelse = []        # `else: pass` says nothing
    for fn in [n for n in ast.walk(tree) if isinstance(n, (ast.FunctionDef, ast.AsyncFunctionDef))]:
        declared = set()
        for n in _scope_nodes(fn):
            if isinstance(n, (ast.Global, ast.Nonlocal)):
                declared |= set(n.names)
        uses = {}
        for n in ast.walk(fn):
            if isinstance(n, ast.Name):
                uses[n.id] = uses.get(n.id, 0) + 1
        # occurrences that belong to an adjacent `v = e; return v` pair (the name may be reused by several pairs)
        paired = {}
        for n in ast.walk(fn):
            for field in ('body', 'orelse', 'finalbody'):
                b = getattr(n, field, None)
                if isinstance(b, list):
                    for i in range(len(b) - 1):
                        if isinstance(b[i], ast.Assign) and len(b[i].targets) == 1 and isinstance(b[i].targets[0], ast.Name) \
                                and isinstance(b[i + 1], ast.Return) and isinstance(b[i + 1].value, ast.Name) \
                                and b[i + 1].value.id == b[i].targets[0].id:
                            v = b[i].targets[0].id
                            inner = sum(1 for x in ast.walk(b[i].value) if isinstance(x, ast.Name) and x.id == v)
                            paired[v] = paired.get(v, 0) + 2 + inner if inner == 0 else -10 ** 6
        inlinable = {v for v, c in paired.items() if c == uses.get(v, 0)}

        def blocks(node):
            for field in ('body', 'orelse', 'finalbody'):
                b = getattr(node, field, None)
                if isinstance(b, list) and b and isinstance(b[0], ast.stmt):
                    yield b
            for h in getattr(node, 'handlers', []) or []:
                yield h.body

        todo = [fn]
        while todo:
            node = todo.pop()
            for b in blocks(node):
                i = 0
                while i < len(b):
                    st = b[i]
                    # (a)
                    if isinstance(st, ast.Assign) and len(st.targets) == 1 and isinstance(st.targets[0], ast.Name) \
                            and i + 1 < len(b) and isinstance(b[i + 1], ast.Return) and isinstance(b[i + 1].value, ast.Name) \
                            and b[i + 1].value.id == st.targets[0].id and st.targets[0].id not in declared \
                            and st.targets[0].id in inlinable:
                        ret = b[i + 1]
                        ret.value = st.value
                        ret.lineno = st.lineno
                        del b[i]
                        continue
                    # (g) `v = e; f(v, ...)` -> `f(e, ...)` when v is used nowhere else and nothing with an effect is
                    #     evaluated before the first argument (f is a plain name / attribute chain)
                    if isinstance(st, ast.Assign) and len(st.targets) == 1 and isinstance(st.targets[0], ast.Name) \
                            and i + 1 < len(b) and st.targets[0].id not in declared and uses.get(st.targets[0].id, 0) == 2 \
                            and isinstance(b[i + 1], (ast.Return, ast.Expr, ast.Assign)) \
                            and isinstance(getattr(b[i + 1], 'value', None), ast.Call):
                        call = b[i + 1].value
                        if call.args and isinstance(call.args[0], ast.Name) and call.args[0].id == st.targets[0].id \
                                and not any(isinstance(x, ast.Call) for x in ast.walk(call.func)) \
                                and not (isinstance(b[i + 1], ast.Assign) and any(isinstance(x, ast.Call) for t_ in b[i + 1].targets
                                                                                 for x in ast.walk(t_))):
                            call.args[0] = st.value
                            b[i + 1].lineno = st.lineno
                            del b[i]
                            continue
                    if isinstance(st, ast.If):
                        # (c)
                        while not st.orelse and len(st.body) == 1 and isinstance(st.body[0], ast.If) and not st.body[0].orelse:
                            inner = st.body[0]
                            left = st.test.values if isinstance(st.test, ast.BoolOp) and isinstance(st.test.op, ast.And) else [st.test]
                            right = inner.test.values if isinstance(inner.test, ast.BoolOp) and isinstance(inner.test.op, ast.And) \
                                else [inner.test]
                            st.test = ast.copy_location(ast.BoolOp(op=ast.And(), values=list(left) + list(right)), st.test)
                            st.body = inner.body
                        # (b)
                        if st.orelse and isinstance(st.test, ast.UnaryOp) and isinstance(st.test.op, ast.Not) \
                                and not (len(st.orelse) == 1 and isinstance(st.orelse[0], ast.If)):
                            st.test = st.test.operand
                            st.body, st.orelse = st.orelse, st.body
                    if not isinstance(st, (ast.FunctionDef, ast.AsyncFunctionDef, ast.ClassDef)):
                        todo.append(st)
                    i += 1
    # (i) a bare `return` / `return None` that ends a function body says nothing
    for node in ast.walk(tree):
        if isinstance(node, (ast.FunctionDef, ast.AsyncFunctionDef)) and len(node.body) > 1:
            last = node.body[-1]
            if isinstance(last, ast.Return) and (last.value is None or (isinstance(last.value, ast.Constant) and last.value.value is None)) \
                    and not any(isinstance(x, (ast.Yield, ast.YieldFrom)) for x in _scope_nodes(node)):
                node.body.pop()
    # (d) `pass` in a block that has other statements is dropped; (e) keyword arguments in a fixed (alphabetical) order
    for node in ast.walk(tree):
        for field in ('body', 'orelse', 'finalbody'):
            b = getattr(node, field, None)
            if isinstance(b, list) and len(b) > 1 and any(isinstance(x, ast.Pass) for x in b):
                kept = [x for x in b if not isinstance(x, ast.Pass)]
                if kept:
                    b[:] = kept
        if isinstance(node, ast.Call) and len(node.keywords) > 1 and all(k.arg for k in node.keywords):
            node.keywords.sort(key=lambda k: k.arg)
    ast.fix_missing_locations(tree)
    return tree


def _terminates(body):
    if not body:
        return False
    last = body[-1]
    if isinstance(last, (ast.Return, ast.Raise, ast.Continue, ast.Break)):
        return True
    if isinstance(last, ast.If) and last.orelse:
        return _terminates(last.body) and _terminates(last.orelse)
    return False


def _is_guard(body):
    if len(body) != 1:
        return False
    st = body[0]
    if isinstance(st, ast.Raise):
        return True
    return isinstance(st, ast.Return) and (st.value is None or isinstance(st.value, (ast.Constant, ast.Name)))


def _stmt_blocks(root):
    out = []
    for node in ast.walk(root):
        for field in ('body', 'orelse', 'finalbody'):
            b = getattr(node, field, None)
            if isinstance(b, list) and b and isinstance(b[0], ast.stmt):
                out.append(b)
    return out


def view(fn, kind):
    """A behaviour-preserving normal form of one function, for rules written against one of the two equivalent
    spellings of "leave early":

      'flat'    no else after a body that always leaves:   if c: T else: B   ->   if c: T; B
      'nested'  what follows an always-leaving if is its else:   if c: T; B   ->   if c: T else: B

    Returns a deep copy (parents re-linked, the copy's own parent is the original's); `fn` itself is unchanged."""
    import copy
    parent = getattr(fn, '_parent', None)
    if parent is not None:
        fn._parent = None          # do not drag the whole module into the copy
    try:
        new = copy.deepcopy(fn)
    finally:
        if parent is not None:
            fn._parent = parent
    changed = True
    while changed:
        changed = False
        for b in _stmt_blocks(new):
            if kind == 'flat':
                i = 0
                while i < len(b):
                    st = b[i]
                    if isinstance(st, ast.If) and st.orelse and _terminates(st.body) and _terminates(st.orelse) \
                            and not (len(st.orelse) == 1 and isinstance(st.orelse[0], ast.If)) and _is_guard(st.orelse) \
                            and not _is_guard(st.body):
                        # both branches leave: the guard-like one (a bare `return <name/constant>` / raise) goes first
                        st.body, st.orelse = st.orelse, st.body
                        st.test = st.test.operand if isinstance(st.test, ast.UnaryOp) and isinstance(st.test.op, ast.Not) \
                            else ast.copy_location(ast.UnaryOp(op=ast.Not(), operand=st.test), st.test)
                    if isinstance(st, ast.If) and st.orelse and _terminates(st.body):
                        tail = st.orelse
                        st.orelse = []
                        b[i + 1:i + 1] = tail
                        changed = True
                    elif isinstance(st, ast.If) and st.orelse and _terminates(st.orelse) \
                            and not (len(st.orelse) == 1 and isinstance(st.orelse[0], ast.If)):
                        # the leaving branch is the else: `if c: B else: T` -> `if not c: T; B`
                        tail = st.body
                        st.body = st.orelse
                        st.orelse = []
                        st.test = st.test.operand if isinstance(st.test, ast.UnaryOp) and isinstance(st.test.op, ast.Not) \
                            else ast.copy_location(ast.UnaryOp(op=ast.Not(), operand=st.test), st.test)
                        b[i + 1:i + 1] = tail
                        changed = True
                    i += 1
            else:
                for i, st in enumerate(b):
                    if isinstance(st, ast.If) and not st.orelse and _terminates(st.body) and i + 1 < len(b):
                        st.orelse = b[i + 1:]
                        del b[i + 1:]
                        changed = True
                        break
            if changed:
                break
    for p_ in ast.walk(new):
        for ch in ast.iter_child_nodes(p_):
            ch._parent = p_
    new._parent = parent
    number_nodes(new)
    return new


class Module(object):
    def __init__(self, name, path, text):
        self.name = name
        self.path = path
        self.text = text
        self.tree = canonicalise(ast.parse(text, filename=path), name)
        number_nodes(self.tree)
        for parent in ast.walk(self.tree):
            for child in ast.iter_child_nodes(parent):
                child._parent = parent
        self.bindings = {}     # name -> list of defining nodes (top level, in order)
        self.imports = {}      # local name -> (module, name|None)
        self.star_imports = []
        self._collect(self.tree.body)

    def relpath(self):
        return '%s/%s.py' % (PKG, self.name)

    def _bind(self, name, node):
        self.bindings.setdefault(name, []).append(node)

    def _collect(self, body):
        for st in body:
            if isinstance(st, (ast.FunctionDef, ast.ClassDef)):
                self._bind(st.name, st)
            elif isinstance(st, ast.Assign):
                for t in st.targets:
                    for n in _target_names(t):
                        self._bind(n, st)
            elif isinstance(st, ast.AugAssign):
                for n in _target_names(st.target):
                    self._bind(n, st)
            elif isinstance(st, ast.Import):
                for a in st.names:
                    local = a.asname or a.name.split('.')[0]
                    self.imports[local] = (a.name if a.asname else a.name.split('.')[0], None)
            elif isinstance(st, ast.ImportFrom):
                mod = ('.' * st.level) + (st.module or '')
                for a in st.names:
                    if a.name == '*':
                        self.star_imports.append(mod)
                    else:
                        self.imports[a.asname or a.name] = (mod, a.name)
            elif isinstance(st, ast.If):
                # fold python-version conditionals: keep the py3 branch
                v = _static_truth(st.test)
                if v is True:
                    self._collect(st.body)
                elif v is False:
                    self._collect(st.orelse)
                else:
                    self._collect(st.body)
                    self._collect(st.orelse)
            elif isinstance(st, ast.Try):
                self._collect(st.body)


def _target_names(t):
    if isinstance(t, ast.Name):
        return [t.id]
    if isinstance(t, (ast.Tuple, ast.List)):
        out = []
        for e in t.elts:
            out.extend(_target_names(e))
        return out
    return []


def _static_truth(test):
    """six.PY2 / sys.version_info tests folded for python >= 3.7; None if unknown."""
    t = norm(test)
    if t in ('six.PY2',):
        return False
    if t in ('not six.PY2', 'six.PY3'):
        return True
    if t == 'PINT_AVAILABLE':
        return None
    m = re.match(r'^sys\.version_info\[0\] < 3$', t)
    if m:
        return False
    m = re.match(r'^sys\.version_info\[0:2\] <= \(3, 6\)$', t)
    if m:
        return False
    return None


class Model(object):
    def __init__(self, repo=None, overrides=None):
        self.repo = repo or REPO
        self.overrides = overrides or {}
        self.modules = {}
        self.load_errors = {}
        pkgdir = os.path.join(self.repo, PKG)
        if not os.path.isdir(pkgdir):
            raise AnalysisError('package directory %s missing' % pkgdir)
        for fn in sorted(os.listdir(pkgdir)):
            if not fn.endswith('.py'):
                continue
            name = fn[:-3]
            path = os.path.join(pkgdir, fn)
            try:
                if name in self.overrides:
                    text = self.overrides[name]
                else:
                    with open(path, encoding='utf-8') as f:
                        text = f.read()
                self.modules[name] = Module(name, path, text)
            except SyntaxError as e:
                self.load_errors[name] = str(e)
        for name, m in self.modules.items():
            if '__format__' in m.text and any(isinstance(n, ast.FunctionDef) and n.name == '__format__' for n in ast.walk(m.tree)):
                # canonicalisation (l) reads `{e}` as str(e); a __format__ override would make that wrong
                raise AnalysisError('hszinc/%s.py defines __format__: f-string fields without conversion are no longer str()' % name)
        self._const_cache = {}

    def with_override(self, modname, text):
        ov = dict(self.overrides)
        ov[modname] = text
        return Model(self.repo, ov)

    # -- lookup -------------------------------------------------------------
    def mod(self, name):
        try:
            self.consulted.add(name)
        except AttributeError:
            self.consulted = {name}
        if name in self.load_errors:
            raise AnalysisError('module %s does not parse: %s' % (name, self.load_errors[name]))
        if name not in self.modules:
            raise AnalysisError('anchor vanished: module hszinc/%s.py' % name)
        return self.modules[name]

    def func(self, modname, qual, view_=None):
        if view_ is not None:
            key = (modname, qual, view_)
            cache = self.__dict__.setdefault('_views', {})
            if key not in cache:
                cache[key] = view(self.func(modname, qual), view_)
            return cache[key]
        m = self.mod(modname)
        parts = qual.split('.')
        body = _live_body(m.tree.body)
        node = None
        for i, p in enumerate(parts):
            found = None
            for st in body:
                if isinstance(st, (ast.FunctionDef, ast.ClassDef)) and st.name == p:
                    found = st
            if found is None:
                raise AnalysisError('anchor vanished: %s.%s in hszinc/%s.py' % (modname, qual, modname))
            node = found
            body = _live_body(node.body)
        return node

    def has(self, modname, qual):
        try:
            self.func(modname, qual)
            return True
        except AnalysisError:
            return False

    def cls(self, modname, name):
        node = self.func(modname, name)
        if not isinstance(node, ast.ClassDef):
            raise AnalysisError('%s.%s is not a class' % (modname, name))
        return node

    def methods(self, modname, clsname, view_=None):
        c = self.cls(modname, clsname)
        out = {}
        for st in _live_body(c.body):
            if isinstance(st, ast.FunctionDef):
                out[st.name] = st if view_ is None else self.func(modname, '%s.%s' % (clsname, st.name), view_)
        return out

    def resolve_name(self, modname, name, _depth=0):
        """Follow imports inside the package: returns (modname, name) of the definition
        or ('<ext>', dotted) for externals; None if unknown."""
        if _depth > 8:
            return None
        m = self.mod(modname)
        if name in m.bindings:
            return (modname, name)
        if name in m.imports:
            src, orig = m.imports[name]
            if src.startswith('.'):
                target = src.lstrip('.')
                if target == '':
                    # from . import X  -> package __init__ or submodule
                    if orig in self.modules:
                        return (orig, None)
                    return self.resolve_name('__init__', orig, _depth + 1)
                if orig is None:
                    return (target, None)
                return self.resolve_name(target, orig, _depth + 1)
            return ('<ext>', src if orig is None else '%s.%s' % (src, orig))
        for src in m.star_imports:
            if src.startswith('.'):
                target = src.lstrip('.')
                if target in self.modules:
                    tm = self.modules[target]
                    if name.startswith('_'):
                        continue
                    if name in tm.bindings or name in tm.imports:
                        r = self.resolve_name(target, name, _depth + 1)
                        if r:
                            return r
                    for s2 in tm.star_imports:
                        pass
        return None

    def exported_names(self, modname):
        """Names a `from .modname import *` brings in (no __all__ in this package)."""
        m = self.mod(modname)
        names = set()
        for n in list(m.bindings) + list(m.imports):
            if not n.startswith('_'):
                names.add(n)
        for src in m.star_imports:
            if src.startswith('.') and src.lstrip('.') in self.modules:
                names |= self.exported_names(src.lstrip('.'))
        return names

    def global_names(self, modname):
        """Every name bound in a module's global namespace after import."""
        m = self.mod(modname)
        names = set(m.bindings) | set(m.imports)
        for src in m.star_imports:
            if src.startswith('.') and src.lstrip('.') in self.modules:
                names |= self.exported_names(src.lstrip('.'))
        return names

    # -- constants ------------------------------------------------------------
    def const(self, modname, name):
        key = (modname, name)
        if key in self._const_cache:
            return self._const_cache[key]
        self._const_cache[key] = Opaque('recursive')
        r = self.resolve_name(modname, name)
        val = Opaque('unresolved %s.%s' % (modname, name))
        if r and r[0] != '<ext>' and r[1] is not None:
            dm = self.mod(r[0])
            defs = dm.bindings.get(r[1], [])
            assigns = [d for d in defs if isinstance(d, ast.Assign)]
            if len(defs) == 1 and assigns:
                st = assigns[0]
                if len(st.targets) == 1 and isinstance(st.targets[0], ast.Name):
                    val = self.fold(r[0], st.value)
            elif len(defs) > 1:
                val = Opaque('%s.%s bound %d times' % (r[0], r[1], len(defs)))
        self._const_cache[key] = val
        return val

    def const_node(self, modname, name):
        r = self.resolve_name(modname, name)
        if r and r[0] != '<ext>' and r[1] is not None:
            defs = self.mod(r[0]).bindings.get(r[1], [])
            if defs:
                return r[0], defs[-1]
        return None, None

    def fold(self, modname, node, env=None):
        """Constant-fold a pure expression; returns a python value, RegexConst or Opaque."""
        env = env or {}
        f = lambda n: self.fold(modname, n, env)
        if isinstance(node, ast.Constant):
            return node.value
        if isinstance(node, ast.Name):
            if node.id in env:
                return env[node.id]
            if node.id in ('True', 'False', 'None'):
                return {'True': True, 'False': False, 'None': None}[node.id]
            return self.const(modname, node.id)
        if isinstance(node, (ast.Tuple, ast.List)):
            vals = [f(e) for e in node.elts]
            if any(isinstance(v, Opaque) for v in vals):
                return Opaque('element')
            return tuple(vals) if isinstance(node, ast.Tuple) else list(vals)
        if isinstance(node, ast.Set):
            vals = [f(e) for e in node.elts]
            if any(isinstance(v, Opaque) for v in vals):
                return Opaque('element')
            return set(vals)
        if isinstance(node, ast.Dict):
            ks = [f(k) if k is not None else Opaque('**') for k in node.keys]
            vs = [f(v) for v in node.values]
            if any(isinstance(v, Opaque) for v in ks + vs):
                return Opaque('dict element')
            try:
                return dict(zip(ks, vs))
            except TypeError:
                return Opaque('unhashable key')
        if isinstance(node, ast.BinOp):
            l, r = f(node.left), f(node.right)
            if isinstance(l, Opaque) or isinstance(r, Opaque):
                return Opaque('binop operand')
            try:
                if isinstance(node.op, ast.Add):
                    return l + r
                if isinstance(node.op, ast.Mod) and isinstance(l, str):
                    return l % r
                if isinstance(node.op, ast.Mult) and isinstance(l, (str, int)) and isinstance(r, (str, int)):
                    if isinstance(l, int) and isinstance(r, int) or max(
                            l if isinstance(l, int) else 0, r if isinstance(r, int) else 0) < 100000:
                        return l * r
                if isinstance(node.op, ast.BitOr) and isinstance(l, int) and isinstance(r, int):
                    return l | r
                if isinstance(node.op, ast.Sub) and isinstance(l, (int, float)):
                    return l - r
            except Exception as e:
                return Opaque('binop raises %s' % type(e).__name__)
            return Opaque('binop %s' % type(node.op).__name__)
        if isinstance(node, ast.UnaryOp) and isinstance(node.op, ast.USub):
            v = f(node.operand)
            return -v if isinstance(v, (int, float)) else Opaque('usub')
        if isinstance(node, ast.Attribute):
            t = norm(node)
            if t.startswith('re.'):
                flagmap = {'re.MULTILINE': re.M, 're.M': re.M, 're.DOTALL': re.S, 're.S': re.S,
                           're.IGNORECASE': re.I, 're.I': re.I, 're.UNICODE': re.U, 're.U': re.U,
                           're.ASCII': re.A, 're.A': re.A, 're.VERBOSE': re.X, 're.X': re.X}
                if t in flagmap:
                    return int(flagmap[t])
            if node.attr in ('pattern', 'flags') and isinstance(node.value, ast.Name):
                base = f(node.value)
                if isinstance(base, RegexConst):
                    return base.pattern if node.attr == 'pattern' else base.flags
            return Opaque('attribute %s' % t)
        if isinstance(node, ast.JoinedStr):
            return Opaque('f-string')
        if isinstance(node, ast.Call):
            fn = norm(node.func)
            if fn == 're.compile':
                args = [f(a) for a in node.args]
                kw = {k.arg: f(k.value) for k in node.keywords}
                pat = args[0] if args else kw.get('pattern')
                flags = args[1] if len(args) > 1 else kw.get('flags', 0)
                if isinstance(pat, str) and isinstance(flags, int):
                    return RegexConst(pat, flags, node)
                return Opaque('re.compile of non-constant')
            if fn in ('six.unichr', 'chr', 'unichr') and len(node.args) == 1:
                v = f(node.args[0])
                if isinstance(v, int) and 0 <= v <= 0x10FFFF:
                    return chr(v)
                return Opaque('chr')
            if fn == 'dict' and len(node.args) == 1 and not node.keywords:
                v = f(node.args[0])
                if isinstance(v, (list, tuple)) and all(isinstance(x, (list, tuple)) and len(x) == 2 for x in v):
                    try:
                        return dict(v)
                    except TypeError:
                        return Opaque('unhashable key')
                return Opaque('dict')
            if fn in ('set', 'list', 'tuple', 'frozenset') and len(node.args) == 1:
                v = f(node.args[0])
                if isinstance(v, (list, tuple, set, str)):
                    try:
                        return {'set': set, 'list': list, 'tuple': tuple, 'frozenset': frozenset}[fn](v)
                    except TypeError:
                        return Opaque('unhashable')
                return Opaque(fn)
            if fn == 'range':
                vals = [f(a) for a in node.args]
                if all(isinstance(v, int) for v in vals) and 1 <= len(vals) <= 3:
                    r = range(*vals)
                    if len(r) <= 0x110000:
                        return r
                return Opaque('range')
            if isinstance(node.func, ast.Attribute) and node.func.attr == 'join' and len(node.args) == 1:
                sep = f(node.func.value)
                seq = f(node.args[0])
                if isinstance(sep, str) and isinstance(seq, (list, tuple)) and all(isinstance(x, str) for x in seq):
                    return sep.join(seq)
                return Opaque('join')
            if isinstance(node.func, ast.Attribute) and node.func.attr in ('encode', 'decode') and len(node.args) <= 2 \
                    and not node.keywords:
                base = f(node.func.value)
                a = [f(x) for x in node.args]
                pure = ('unicode_escape', 'unicode-escape', 'ascii', 'utf-8', 'utf8', 'latin-1', 'latin1', 'raw_unicode_escape')
                if isinstance(base, (str, bytes)) and all(isinstance(x, str) for x in a) and (not a or a[0].lower() in pure):
                    try:
                        return getattr(base, node.func.attr)(*a)
                    except (UnicodeError, LookupError) as e:
                        return Opaque('%s raises %s' % (node.func.attr, type(e).__name__))
                return Opaque(node.func.attr)
            if isinstance(node.func, ast.Attribute) and node.func.attr == 'split' and len(node.args) <= 1:
                s = f(node.func.value)
                if isinstance(s, str):
                    a = [f(x) for x in node.args]
                    if all(isinstance(x, str) for x in a):
                        return s.split(*a)
                return Opaque('split')
            if fn in ('Version',) and len(node.args) == 1:
                v = f(node.args[0])
                if isinstance(v, str):
                    return VersionConst(v)
            return Opaque('call %s' % fn)
        if isinstance(node, (ast.ListComp, ast.GeneratorExp)) and len(node.generators) == 1:
            g = node.generators[0]
            it = f(g.iter)
            if isinstance(it, (range, list, tuple, str)) and isinstance(g.target, ast.Name) and not g.ifs:
                if len(it) > 0x110000:
                    return Opaque('comprehension too large')
                # fast path: chr(c) for c in range(a, b)
                if isinstance(it, range) and isinstance(node.elt, ast.Call) and len(node.elt.args) == 1 \
                        and norm(node.elt.func) in ('six.unichr', 'chr', 'unichr') \
                        and isinstance(node.elt.args[0], ast.Name) and node.elt.args[0].id == g.target.id \
                        and (len(it) == 0 or (0 <= it[0] <= 0x10FFFF and 0 <= it[-1] <= 0x10FFFF)):
                    return [chr(x) for x in it]
                out = []
                for x in it:
                    e2 = dict(env)
                    e2[g.target.id] = x
                    v = self.fold(modname, node.elt, e2)
                    if isinstance(v, Opaque):
                        return v
                    out.append(v)
                return out
            return Opaque('comprehension')
        return Opaque(type(node).__name__)

    # -- classes ----------------------------------------------------------------
    def class_bases(self, modname, clsname):
        c = self.cls(modname, clsname)
        return [norm(b) for b in c.bases]


class VersionConst(object):
    def __init__(self, s):
        self.s = s

    def __repr__(self):
        return 'Version(%r)' % self.s

    def __eq__(self, o):
        return isinstance(o, VersionConst) and o.s == self.s

    def __hash__(self):
        return hash(('V', self.s))


def _live_body(body):
    """Statements of a body with python-version conditionals folded."""
    out = []
    for st in body:
        if isinstance(st, ast.If):
            v = _static_truth(st.test)
            if v is True:
                out.extend(_live_body(st.body))
                continue
            if v is False:
                out.extend(_live_body(st.orelse))
                continue
        out.append(st)
    return out


live_body = _live_body
static_truth = _static_truth


def body_wo_doc(fn):
    body = _live_body(fn.body)
    if body and isinstance(body[0], ast.Expr) and isinstance(body[0].value, ast.Constant) \
            and isinstance(body[0].value.value, str):
        body = body[1:]
    return body


def walk_no_nested(node):
    """ast.walk that does not descend into nested function/class definitions."""
    stack = [node]
    first = True
    while stack:
        n = stack.pop()
        if not first and isinstance(n, (ast.FunctionDef, ast.ClassDef, ast.Lambda)):
            continue
        first = False
        yield n
        stack.extend(ast.iter_child_nodes(n))


def qualname(node):
    parts = []
    n = node
    while n is not None:
        if isinstance(n, (ast.FunctionDef, ast.ClassDef)):
            parts.append(n.name)
        n = getattr(n, '_parent', None)
    return '.'.join(reversed(parts))
