"""E6 -- path enumeration and simple flow facts for the small methods of Grid/SortableDict.

A *path* is the sequence of conditions taken and effect statements executed from the entry of a
statement list to a return / raise / fall-off-the-end.  Loops are kept as single effects (the
loop node) whose bodies are analysed separately by the rules that care."""
from __future__ import annotations

import ast
import re

from .lang import Unsupported
from .model import norm


class Path(object):
    __slots__ = ('conds', 'effects', 'end', 'end_node')

    def __init__(self, conds, effects, end, end_node=None):
        self.conds = conds          # list of (text, bool)
        self.effects = effects      # list of ast nodes (statements or expression-level calls)
        self.end = end              # 'return' | 'raise' | 'fall' | 'continue' | 'break'
        self.end_node = end_node

    def cond(self, text):
        """True/False if the path fixed this condition, None if it did not test it."""
        for t, v in self.conds:
            if t == text or t.startswith(text + ' @before'):
                return v
        return None

    def last_cond(self, text):
        out = None
        for t, v in self.conds:
            if t == text or t.startswith(text + ' @before'):
                out = v
        return out

    def effect_texts(self):
        return [norm(e) for e in self.effects]

    def __repr__(self):
        return 'Path(%s | %s | %s)' % (self.conds, self.effect_texts(), self.end)


def _split_test(test):
    """(text, negated)"""
    if isinstance(test, ast.UnaryOp) and isinstance(test.op, ast.Not):
        return norm(test.operand), True
    return norm(test), False


def _test_branches(test):
    """Expand a boolean test into the lists of atom valuations that make it true / false.
    Returns (true_sets, false_sets); each set is a list of (atom_text, bool)."""
    if isinstance(test, ast.UnaryOp) and isinstance(test.op, ast.Not):
        t, f = _test_branches(test.operand)
        return f, t
    if isinstance(test, ast.BoolOp):
        parts = [_test_branches(v) for v in test.values]
        if isinstance(test.op, ast.And):
            # true: all true (cartesian); false: first false after trues
            true_sets = [[]]
            for t, f in parts:
                true_sets = [a + b for a in true_sets for b in t]
            false_sets = []
            prefix = [[]]
            for t, f in parts:
                for p in prefix:
                    for b in f:
                        false_sets.append(p + b)
                prefix = [a + b for a in prefix for b in t]
            return true_sets, false_sets
        else:
            false_sets = [[]]
            for t, f in parts:
                false_sets = [a + b for a in false_sets for b in f]
            true_sets = []
            prefix = [[]]
            for t, f in parts:
                for p in prefix:
                    for b in t:
                        true_sets.append(p + b)
                prefix = [a + b for a in prefix for b in f]
            return true_sets, false_sets
    text = norm(test)
    return [[(text, True)]], [[(text, False)]]


def _consistent(conds):
    seen = {}
    for t, v in conds:
        if t in seen and seen[t] != v:
            return False
        seen[t] = v
    return True


def enumerate_paths(stmts, limit=4000):
    out = []

    def go(stmts, conds, effects):
        if len(out) > limit:
            raise Unsupported('more than %d paths' % limit)
        for i, st in enumerate(stmts):
            rest = stmts[i + 1:]
            if isinstance(st, ast.If):
                tsets, fsets = _test_branches(st.test)
                for ts in tsets:
                    c2 = conds + ts
                    if _consistent(c2):
                        go(list(st.body) + list(rest), c2, list(effects))
                for fs in fsets:
                    c2 = conds + fs
                    if _consistent(c2):
                        go(list(st.orelse) + list(rest), c2, list(effects))
                return
            if isinstance(st, ast.Try):
                if st.finalbody:
                    raise Unsupported('try/finally')
                # normal path
                go(list(st.body) + list(st.orelse) + list(rest), conds, list(effects))
                # exceptional paths: exception raised by the first statement of the try body
                for h in st.handlers:
                    hname = norm(h.type) if h.type is not None else 'BaseException'
                    go(list(h.body) + list(rest), conds + [('raises %s in: %s' % (hname, norm(st.body[0])), True)],
                       list(effects))
                return
            if isinstance(st, ast.Return):
                out.append(Path(conds, effects, 'return', st))
                return
            if isinstance(st, ast.Raise):
                out.append(Path(conds, effects, 'raise', st))
                return
            if isinstance(st, ast.Continue):
                out.append(Path(conds, effects, 'continue', st))
                return
            if isinstance(st, ast.Break):
                out.append(Path(conds, effects, 'break', st))
                return
            if isinstance(st, ast.Pass):
                continue
            if isinstance(st, ast.Expr) and isinstance(st.value, ast.Constant):
                continue
            if isinstance(st, (ast.Assign, ast.AugAssign, ast.AnnAssign, ast.Expr, ast.Delete, ast.For,
                               ast.While, ast.Assert, ast.Global, ast.With, ast.Import, ast.ImportFrom)):
                effects = effects + [st]
                # a re-assigned name invalidates the conditions that mention it
                names = []
                if isinstance(st, ast.Assign):
                    for t in st.targets:
                        names += [n.id for n in ast.walk(t) if isinstance(n, ast.Name) and isinstance(n.ctx, ast.Store)]
                elif isinstance(st, (ast.AugAssign, ast.AnnAssign)) and isinstance(st.target, ast.Name):
                    names.append(st.target.id)
                if names:
                    pat = re.compile(r'(?<![\w.])(%s)(?!\w)' % '|'.join(map(re.escape, names)))
                    keep = set()
                    if isinstance(st, ast.AugAssign):
                        # x += n keeps "x is not None"
                        keep = {'%s is not None' % n for n in names} | {'%s is None' % n for n in names}
                    gen = sum(1 for t, _ in conds if ' @before' in t) + 1
                    conds = [((t + ' @before%d' % gen) if pat.search(t) and ' @before' not in t and t not in keep
                              else t, v) for t, v in conds]
                    if isinstance(st, ast.Assign) and len(names) == 1 and isinstance(st.targets[0], ast.Name):
                        v = st.value
                        nonnull = isinstance(v, (ast.Call, ast.BinOp, ast.List, ast.Dict, ast.Tuple)) or (
                            isinstance(v, ast.Constant) and v.value is not None)
                        if isinstance(v, ast.Constant) and v.value is None:
                            conds = conds + [('%s is not None' % names[0], False)]
                        elif nonnull:
                            conds = conds + [('%s is not None' % names[0], True)]
                continue
            raise Unsupported('statement kind %s' % type(st).__name__)
        out.append(Path(conds, effects, 'fall', None))

    go(list(stmts), [], [])
    return out


def linear_events(stmts):
    """Statements in syntactic execution order (loops/ifs flattened), each tagged with the
    enclosing loop nodes.  Yields (stmt, loops)."""
    def go(stmts, loops):
        for st in stmts:
            if isinstance(st, (ast.For, ast.While)):
                yield (st, loops)
                for x in go(st.body, loops + (st,)):
                    yield x
                for x in go(st.orelse, loops):
                    yield x
            elif isinstance(st, ast.If):
                yield (st, loops)
                for x in go(st.body, loops):
                    yield x
                for x in go(st.orelse, loops):
                    yield x
            elif isinstance(st, ast.Try):
                for x in go(st.body, loops):
                    yield x
                for h in st.handlers:
                    for x in go(h.body, loops):
                        yield x
                for x in go(st.orelse, loops):
                    yield x
                for x in go(st.finalbody, loops):
                    yield x
            elif isinstance(st, ast.With):
                yield (st, loops)
                for x in go(st.body, loops):
                    yield x
            else:
                yield (st, loops)
    return list(go(stmts, ()))


def attr_writes(node, selfname, fields):
    """Writes through self.<field>: assignments, subscripts stores, deletes, mutator calls.
    Returns list of (field, kind, node)."""
    MUT = {'pop', 'append', 'insert', 'extend', 'update', 'clear', 'sort', 'reverse', 'remove',
           'setdefault', 'popitem', '__setitem__', '__delitem__', 'discard', 'add'}
    out = []
    for n in ast.walk(node):
        if isinstance(n, (ast.Assign, ast.AugAssign, ast.AnnAssign)):
            targets = n.targets if isinstance(n, ast.Assign) else [n.target]
            for t in targets:
                for tt in ([t] if not isinstance(t, (ast.Tuple, ast.List)) else t.elts):
                    f = _self_field(tt, selfname)
                    if f in fields:
                        out.append((f, 'assign', n))
                    if isinstance(tt, ast.Subscript):
                        f = _self_field(tt.value, selfname)
                        if f in fields:
                            out.append((f, 'store', n))
        elif isinstance(n, ast.Delete):
            for t in n.targets:
                if isinstance(t, ast.Subscript):
                    f = _self_field(t.value, selfname)
                    if f in fields:
                        out.append((f, 'delete', n))
        elif isinstance(n, ast.Call) and isinstance(n.func, ast.Attribute) and n.func.attr in MUT:
            f = _self_field(n.func.value, selfname)
            if f in fields:
                out.append((f, n.func.attr, n))
    return out


def _self_field(node, selfname):
    if isinstance(node, ast.Attribute) and isinstance(node.value, ast.Name) and node.value.id == selfname:
        return node.attr
    return None
