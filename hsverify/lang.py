"""E3 -- regular languages over code points (plus a few reserved symbols).

* IntervalSet: immutable sorted tuple of disjoint (lo, hi) ranges.
* Rx: a tiny regex AST (tuples) that everything is translated into:
      ('eps',) ('set', IntervalSet) ('cat', [..]) ('alt', [..]) ('star', rx)
* from_pyregex(): python `re` pattern -> Rx via re._parser (no matching is ever run
  on repository data; the pattern text is analysed, not executed).
* NFA + decision procedures: inclusion (with shortest witness), intersection
  emptiness (with witness), shortest member, min length.

Symbols above MAXCP are reserved for nonterminals (a scalar, a grid, ...) and capture
markers; a negated character class never contains them.
"""
from __future__ import annotations

import re
import unicodedata
from collections import deque

try:  # python >= 3.11
    import re._parser as sre_parse
    import re._constants as sre_c
except ImportError:  # pragma: no cover
    import sre_parse
    import sre_constants as sre_c

MAXCP = 0x10FFFF
SYM_BASE = 0x110000


class Unsupported(Exception):
    """The analysed construct is outside what the engine models (-> ANALYSIS-ERROR)."""


# ----------------------------------------------------------------------------
# interval sets
# ----------------------------------------------------------------------------

def iv_norm(ranges):
    rs = sorted((lo, hi) for lo, hi in ranges if lo <= hi)
    out = []
    for lo, hi in rs:
        if out and lo <= out[-1][1] + 1:
            if hi > out[-1][1]:
                out[-1] = (out[-1][0], hi)
        else:
            out.append((lo, hi))
    return tuple(out)


def iv(*ranges):
    return iv_norm(ranges)


def iv_chars(chars):
    return iv_norm((ord(c), ord(c)) for c in chars)


def iv_union(a, b):
    return iv_norm(tuple(a) + tuple(b))


def iv_inter(a, b):
    out = []
    i = j = 0
    while i < len(a) and j < len(b):
        lo = max(a[i][0], b[j][0])
        hi = min(a[i][1], b[j][1])
        if lo <= hi:
            out.append((lo, hi))
        if a[i][1] < b[j][1]:
            i += 1
        else:
            j += 1
    return tuple(out)


def iv_compl(a, universe=((0, MAXCP),)):
    out = []
    for ulo, uhi in universe:
        cur = ulo
        for lo, hi in a:
            if hi < cur:
                continue
            if lo > uhi:
                break
            if lo > cur:
                out.append((cur, lo - 1))
            cur = max(cur, hi + 1)
        if cur <= uhi:
            out.append((cur, uhi))
    return tuple(out)


def iv_diff(a, b):
    return iv_inter(a, iv_compl(b, universe=((0, SYM_BASE + 0xFFFF),)))


def iv_contains(a, x):
    for lo, hi in a:
        if lo <= x <= hi:
            return True
        if lo > x:
            return False
    return False


def iv_subset(a, b):
    return not iv_diff(a, b)


def iv_size(a):
    return sum(hi - lo + 1 for lo, hi in a)


ANY_CP = ((0, MAXCP),)
NL = iv((10, 10))

_CAT_CACHE = {}


def category(name):
    """Unicode str-pattern categories of `re`."""
    if name in _CAT_CACHE:
        return _CAT_CACHE[name]
    if name == 'digit':
        pred = lambda ch: ch.isdigit() and unicodedata.category(ch) == 'Nd'
    elif name == 'space':
        pred = lambda ch: ch.isspace()
    elif name == 'word':
        pred = lambda ch: ch.isalnum() or ch == '_'
    else:  # pragma: no cover
        raise Unsupported('category %s' % name)
    out = []
    start = None
    for cp in range(0, MAXCP + 1):
        if pred(chr(cp)):
            if start is None:
                start = cp
        elif start is not None:
            out.append((start, cp - 1))
            start = None
    if start is not None:
        out.append((start, MAXCP))
    _CAT_CACHE[name] = tuple(out)
    return _CAT_CACHE[name]


ASCII_DIGIT = iv((48, 57))

# ----------------------------------------------------------------------------
# Rx constructors
# ----------------------------------------------------------------------------

EPS = ('eps',)
EMPTY = ('alt', [])  # the empty language


def rset(ivs):
    return ('set', tuple(ivs))


def rlit(s):
    if s == '':
        return EPS
    return ('cat', [('set', ((ord(c), ord(c)),)) for c in s])


def rlit_caseless(s):
    parts = []
    for c in s:
        parts.append(('set', iv_chars({c.lower(), c.upper()})))
    return ('cat', parts) if parts else EPS


def rmap_case(x, upper=True):
    """Image of a regular expression under str.upper() / str.lower(), for the ASCII letters (other characters are
    left alone: the writers apply it to number and keyword text only)."""
    k = x[0]
    if k == 'set':
        out = []
        for lo, hi in x[1]:
            if lo >= SYM_BASE:
                out.append((lo, hi))
                continue
            src_lo, src_hi = (97, 122) if upper else (65, 90)
            delta = -32 if upper else 32
            # part below, inside, above the letter range that changes
            if lo < src_lo:
                out.append((lo, min(hi, src_lo - 1)))
            if hi > src_hi:
                out.append((max(lo, src_hi + 1), hi))
            a, b = max(lo, src_lo), min(hi, src_hi)
            if a <= b:
                out.append((a + delta, b + delta))
        return ('set', iv_norm(out))
    if k == 'cat':
        return ('cat', [rmap_case(y, upper) for y in x[1]])
    if k == 'alt':
        return ('alt', [rmap_case(y, upper) for y in x[1]])
    if k == 'star':
        return ('star', rmap_case(x[1], upper))
    return x


def rsym(sym):
    return ('set', ((sym, sym),))


def rcat(*xs):
    out = []
    for x in xs:
        if x == EPS:
            continue
        if x[0] == 'cat':
            out.extend(x[1])
        else:
            out.append(x)
    if not out:
        return EPS
    if len(out) == 1:
        return out[0]
    return ('cat', out)


def ralt(*xs):
    out = []
    for x in xs:
        if x[0] == 'alt':
            out.extend(x[1])
        else:
            out.append(x)
    if len(out) == 1:
        return out[0]
    return ('alt', out)


def rstar(x):
    if x == EPS:
        return EPS
    return ('star', x)


def rplus(x):
    return rcat(x, rstar(x))


def ropt(x):
    return ralt(EPS, x)


def rrepeat(x, lo, hi):
    """x{lo,hi}; hi None = unbounded."""
    parts = [x] * lo
    if hi is None:
        parts.append(rstar(x))
    else:
        if hi - lo > 64:
            raise Unsupported('repeat bound too large: {%d,%d}' % (lo, hi))
        tail = EPS
        for _ in range(hi - lo):
            tail = ropt(rcat(x, tail))
        parts.append(tail)
    return rcat(*parts)


def rany_star():
    return rstar(rset(ANY_CP))


# ----------------------------------------------------------------------------
# python regex -> Rx
# ----------------------------------------------------------------------------

_CASE_CLASSES = None


def _case_classes():
    """code point -> its case variants (closure of the one-character lower()/upper() mappings), cased ones only"""
    global _CASE_CLASSES
    if _CASE_CLASSES is None:
        parent = {}

        def find(x):
            while parent.get(x, x) != x:
                parent[x] = parent.get(parent[x], parent[x])
                x = parent[x]
            return x
        for cp in range(0x110000):
            if 0xD800 <= cp <= 0xDFFF:
                continue
            c = chr(cp)
            for d in (c.lower(), c.upper()):
                if len(d) == 1 and d != c:
                    a, b = find(cp), find(ord(d))
                    if a != b:
                        parent[a] = b
        groups = {}
        for cp in list(parent):
            groups.setdefault(find(cp), set()).add(cp)
        for r in list(groups):
            groups[r].add(r)
        out = {}
        for members in groups.values():
            for x in members:
                out[x] = sorted(members - {x})
        _CASE_CLASSES = out
    return _CASE_CLASSES


class PyRegex(object):
    """Structural model of a compiled python regex.

    body          : Rx of the pattern without its leading ^ / trailing $ anchors
    anchored_start: pattern starts with ^ (or \\A)
    anchored_end  : pattern ends with $ (or \\Z: end_strict)
    multiline, dotall: flags
    groups        : number of capture groups
    lookbehind    : Rx of a leading positive look-behind, or None
    """

    def __init__(self, pattern, flags=0, mark_groups=()):
        self.pattern = pattern
        self.flags = flags
        self.multiline = bool(flags & re.MULTILINE)
        self.dotall = bool(flags & re.DOTALL)
        self.icase = bool(flags & re.IGNORECASE)
        if flags & re.VERBOSE:
            raise Unsupported('VERBOSE regex %r' % pattern)
        self.ascii = bool(flags & re.ASCII)
        try:
            parsed = sre_parse.parse(pattern, flags)
        except re.error as e:
            raise Unsupported('regex %r does not compile: %s' % (pattern, e))
        # inline flags
        st_flags = parsed.state.flags
        self.icase = bool(st_flags & re.IGNORECASE)
        self.multiline = bool(st_flags & re.MULTILINE)
        self.dotall = bool(st_flags & re.DOTALL)
        self.ascii = bool(st_flags & re.ASCII)
        self.groups = parsed.state.groups - 1
        items = list(parsed)
        self.anchored_start = False
        self.anchored_end = False
        self.end_strict = False
        self.lookbehind = None
        if items and items[0][0] == sre_c.AT and items[0][1] in (
                sre_c.AT_BEGINNING, sre_c.AT_BEGINNING_STRING):
            self.anchored_start = True
            items = items[1:]
        if items and items[0][0] == sre_c.ASSERT and items[0][1][0] == -1:
            self.lookbehind = self._seq(items[0][1][1], ())
            items = items[1:]
        if items and items[-1][0] == sre_c.AT and items[-1][1] in (
                sre_c.AT_END, sre_c.AT_END_STRING):
            self.anchored_end = True
            self.end_strict = items[-1][1] == sre_c.AT_END_STRING
            items = items[:-1]
        self.mark_groups = tuple(mark_groups)
        self.body = self._seq(items, self.mark_groups)
        self.body_unmarked = self._seq(items, ()) if mark_groups else self.body

    # -- translation -------------------------------------------------------
    def _fold(self, ivs):
        """under IGNORECASE a character class stands for every case variant of its members"""
        if not self.icase:
            return ivs
        extra = []
        if self.ascii:
            for lo, hi in ivs:
                for a, b, d in ((65, 90, 32), (97, 122, -32)):
                    x, y = max(lo, a), min(hi, b)
                    if x <= y:
                        extra.append((x + d, y + d))
        else:
            table = _case_classes()
            for cp, mates in table.items():
                if iv_contains(ivs, cp):
                    extra.extend((m_, m_) for m_ in mates)
        return iv_union(ivs, iv_norm(extra)) if extra else ivs

    def _digit(self):
        return ASCII_DIGIT if self.ascii else category('digit')

    def _cat(self, which):
        neg = False
        name = str(which)
        m = {
            'CATEGORY_DIGIT': ('digit', False), 'CATEGORY_NOT_DIGIT': ('digit', True),
            'CATEGORY_SPACE': ('space', False), 'CATEGORY_NOT_SPACE': ('space', True),
            'CATEGORY_WORD': ('word', False), 'CATEGORY_NOT_WORD': ('word', True),
        }
        if name not in m:
            raise Unsupported('regex category %s' % name)
        cat, neg = m[name]
        if self.ascii:
            base = {'digit': ASCII_DIGIT,
                    'space': iv_chars(' \t\n\r\f\v'),
                    'word': iv((48, 57), (65, 90), (95, 95), (97, 122))}[cat]
        else:
            base = category(cat)
        return iv_compl(base) if neg else base

    def _in(self, items):
        neg = False
        acc = ()
        for op, av in items:
            if op == sre_c.NEGATE:
                neg = True
            elif op == sre_c.LITERAL:
                acc = iv_union(acc, ((av, av),))
            elif op == sre_c.RANGE:
                acc = iv_union(acc, ((av[0], av[1]),))
            elif op == sre_c.CATEGORY:
                acc = iv_union(acc, self._cat(av))
            else:
                raise Unsupported('regex class item %s' % (op,))
        acc = self._fold(acc)
        return iv_compl(acc) if neg else acc

    def _seq(self, items, marks):
        return rcat(*[self._one(op, av, marks) for op, av in items])

    def _one(self, op, av, marks):
        if op == sre_c.LITERAL:
            return rset(self._fold(((av, av),)))
        if op == sre_c.NOT_LITERAL:
            return rset(iv_compl(self._fold(((av, av),))))
        if op == sre_c.ANY:
            return rset(ANY_CP if self.dotall else iv_compl(NL))
        if op == sre_c.IN:
            return rset(self._in(av))
        if op == sre_c.BRANCH:
            return ralt(*[self._seq(alt, marks) for alt in av[1]])
        if op == sre_c.SUBPATTERN:
            gid, add_f, del_f, sub = av
            if add_f or del_f:
                raise Unsupported('scoped inline flags in %r' % self.pattern)
            inner = self._seq(sub, marks)
            if gid is not None and gid in marks:
                return rcat(rsym(open_sym(gid)), inner, rsym(close_sym(gid)))
            return inner
        if op in (sre_c.MAX_REPEAT, sre_c.MIN_REPEAT) or str(op) == 'POSSESSIVE_REPEAT':
            lo, hi, sub = av
            inner = self._seq(sub, marks)
            return rrepeat(inner, lo, None if hi == sre_c.MAXREPEAT else hi)
        if str(op) == 'ATOMIC_GROUP':
            return self._seq(av, marks)
        if op == sre_c.AT:
            raise Unsupported('anchor %s inside regex %r' % (av, self.pattern))
        raise Unsupported('regex op %s in %r' % (op, self.pattern))

    # -- languages -----------------------------------------------------------
    def full(self, marked=False):
        """Strings s for which a match spanning all of s exists (end anchor = true end)."""
        return self.body if marked else self.body_unmarked

    def match_lang(self):
        """{s : RE.match(s) is not None}."""
        b = self.body_unmarked
        if self.lookbehind is not None:
            raise Unsupported('match_lang with look-behind')
        if not self.anchored_end:
            return rcat(b, rany_star())
        if self.end_strict:
            return b
        if self.multiline:
            return rcat(b, ropt(rcat(rset(NL), rany_star())))
        return rcat(b, ropt(rset(NL)))

    def truncating_lang(self):
        """Strings on which .match() succeeds but stops before the end of the string
        (for end-anchored patterns): body . NL . (anything | nothing)."""
        b = self.body_unmarked
        if not self.anchored_end or self.end_strict:
            return EMPTY if self.anchored_end else rcat(b, rset(ANY_CP), rany_star())
        if self.multiline:
            return rcat(b, rset(NL), rany_star())
        return rcat(b, rset(NL))


def ambiguous_repeats(pattern, flags=0):
    """Unbounded repeats (X)* / (X)+ of a python regex whose body X is ambiguous under iteration: some string is
    both ONE iteration of X and TWO OR MORE (L(X) & L(X X X*) != {}).  On a backtracking engine such a repeat has
    exponentially many ways to match a run of that string; when the continuation fails, all of them are tried.
    Returns [(text of the repeat body as Rx rendering, witness code points)]; regex parts the model cannot
    express are skipped (sound for reporting: only ambiguities actually found are returned)."""
    pr = PyRegex.__new__(PyRegex)
    pr.pattern = pattern
    pr.flags = flags
    parsed = sre_parse.parse(pattern, flags)
    st_flags = parsed.state.flags
    pr.multiline = bool(st_flags & re.MULTILINE)
    pr.dotall = bool(st_flags & re.DOTALL)
    pr.ascii = bool(st_flags & re.ASCII)
    pr.icase = bool(st_flags & re.IGNORECASE)
    out = []

    def visit(items):
        for op, av in items:
            if op in (sre_c.MAX_REPEAT, sre_c.MIN_REPEAT):
                lo, hi, sub = av
                visit(sub)
                if hi == sre_c.MAXREPEAT and not (len(sub) == 1 and sub[0][0] in (sre_c.LITERAL, sre_c.NOT_LITERAL, sre_c.IN,
                                                                                  sre_c.ANY)):
                    try:
                        x = pr._seq(sub, ())
                        hits = [w for w in find_common_many(build(x), build(rcat(x, x, rstar(x))), n=3) if len(w) > 0]
                        hit = hits[0] if hits else None
                    except Unsupported:
                        hit = None
                    if hit:
                        out.append((x, hit))
            elif op == sre_c.SUBPATTERN:
                visit(av[3])
            elif op == sre_c.BRANCH:
                for alt in av[1]:
                    visit(alt)
            elif op in (sre_c.ASSERT, sre_c.ASSERT_NOT):
                visit(av[1])
    visit(list(parsed))
    return out


def open_sym(gid):
    return SYM_BASE + 0x100 + 2 * gid


def close_sym(gid):
    return SYM_BASE + 0x100 + 2 * gid + 1


def from_pyregex(pattern, flags=0):
    """Rx for the *fullmatch* language of a pattern (anchors at the ends tolerated)."""
    return PyRegex(pattern, flags).full()


# ----------------------------------------------------------------------------
# NFA
# ----------------------------------------------------------------------------

class NFA(object):
    __slots__ = ('eps', 'trans', 'start', 'accept', '_closure')

    def __init__(self):
        self.eps = []    # state -> list of states
        self.trans = []  # state -> list of (IntervalSet, dst)
        self.start = None
        self.accept = None
        self._closure = {}

    def new(self):
        self.eps.append([])
        self.trans.append([])
        return len(self.eps) - 1

    @property
    def n(self):
        return len(self.eps)

    def closure1(self, s):
        c = self._closure.get(s)
        if c is None:
            seen = {s}
            stack = [s]
            while stack:
                x = stack.pop()
                for y in self.eps[x]:
                    if y not in seen:
                        seen.add(y)
                        stack.append(y)
            c = frozenset(seen)
            self._closure[s] = c
        return c

    def closure(self, states):
        out = set()
        for s in states:
            out |= self.closure1(s)
        return frozenset(out)


def build(rx):
    nfa = NFA()

    def go(r):
        k = r[0]
        if k == 'eps':
            s = nfa.new()
            return s, s
        if k == 'set':
            s = nfa.new()
            e = nfa.new()
            if r[1]:
                nfa.trans[s].append((r[1], e))
            return s, e
        if k == 'cat':
            first = None
            last = None
            for x in r[1]:
                s, e = go(x)
                if first is None:
                    first = s
                else:
                    nfa.eps[last].append(s)
                last = e
            if first is None:
                s = nfa.new()
                return s, s
            return first, last
        if k == 'alt':
            s = nfa.new()
            e = nfa.new()
            for x in r[1]:
                xs, xe = go(x)
                nfa.eps[s].append(xs)
                nfa.eps[xe].append(e)
            return s, e
        if k == 'star':
            s = nfa.new()
            e = nfa.new()
            xs, xe = go(r[1])
            nfa.eps[s].append(xs)
            nfa.eps[s].append(e)
            nfa.eps[xe].append(xs)
            nfa.eps[xe].append(e)
            return s, e
        raise Unsupported('rx node %r' % (k,))

    s, e = go(rx)
    nfa.start = s
    nfa.accept = e
    return nfa


def _as_nfa(x):
    return x if isinstance(x, NFA) else build(x)


def _boundaries(sets):
    pts = set()
    for ivs in sets:
        for lo, hi in ivs:
            pts.add(lo)
            pts.add(hi + 1)
    return sorted(pts)


def _minterms(a_set, b_sets):
    """Split a_set into maximal pieces on which membership in every b_set is constant.
    Yields (representative, piece_lo, piece_hi)."""
    pts = _boundaries([a_set] + list(b_sets))
    for lo, hi in a_set:
        cur = lo
        for p in pts:
            if p <= lo:
                continue
            if p > hi:
                break
            yield (cur, cur, p - 1)
            cur = p
        yield (cur, cur, hi)


def sym_name(cp, names=None):
    if names and cp in names:
        return names[cp]
    if cp >= SYM_BASE:
        if cp >= SYM_BASE + 0x100:
            g = (cp - SYM_BASE - 0x100)
            return '⟨%s%d⟩' % ('(' if g % 2 == 0 else ')', g // 2)
        return '⟨#%d⟩' % (cp - SYM_BASE)
    return chr(cp)


def render(word, names=None):
    return ''.join(sym_name(c, names) for c in word)


def find_not_included(a, b, limit=200000, max_witnesses=1):
    """Shortest word(s) of L(a) \\ L(b) as lists of symbols; [] if L(a) is a subset of L(b)."""
    A = _as_nfa(a)
    B = _as_nfa(b)
    b0 = B.closure([B.start])
    start = (A.start, b0)
    seen = {start}
    queue = deque([(A.start, b0, None)])
    parents = {}
    out = []
    seen_fail_states = set()
    steps = 0
    while queue:
        a_st, bset, _ = queue.popleft()
        steps += 1
        if steps > limit:
            raise Unsupported('inclusion search exceeded %d product states' % limit)
        acl = A.closure1(a_st)
        if A.accept in acl and B.accept not in bset:
            key = a_st
            if key not in seen_fail_states:
                seen_fail_states.add(key)
                out.append(_path(parents, (a_st, bset)))
                if len(out) >= max_witnesses:
                    return out
        b_trans = []
        for bs in bset:
            for ivs, dst in B.trans[bs]:
                b_trans.append((ivs, dst))
        b_sets = [t[0] for t in b_trans]
        for a1 in acl:
            for a_set, a_dst in A.trans[a1]:
                for rep, lo, hi in _minterms(a_set, b_sets):
                    nxt = set()
                    for ivs, dst in b_trans:
                        if iv_contains(ivs, rep):
                            nxt.add(dst)
                    nb = B.closure(nxt)
                    node = (a_dst, nb)
                    if node not in seen:
                        seen.add(node)
                        parents[node] = ((a_st, bset), rep)
                        queue.append((a_dst, nb, None))
    return out


def _path(parents, node):
    word = []
    while node in parents:
        node, sym = parents[node]
        word.append(sym)
    word.reverse()
    return word


def included(a, b):
    return not find_not_included(a, b)


def find_common(a, b, limit=200000):
    """Shortest word of L(a) & L(b) or None."""
    A = _as_nfa(a)
    B = _as_nfa(b)
    start = (A.start, B.start)
    seen = {start}
    queue = deque([start])
    parents = {}
    steps = 0
    while queue:
        node = queue.popleft()
        steps += 1
        if steps > limit:
            raise Unsupported('intersection search exceeded %d product states' % limit)
        a_st, b_st = node
        acl = A.closure1(a_st)
        bcl = B.closure1(b_st)
        if A.accept in acl and B.accept in bcl:
            return _path(parents, node)
        for a1 in acl:
            for a_set, a_dst in A.trans[a1]:
                for b1 in bcl:
                    for b_set, b_dst in B.trans[b1]:
                        common = iv_inter(a_set, b_set)
                        if common:
                            nxt = (a_dst, b_dst)
                            if nxt not in seen:
                                seen.add(nxt)
                                parents[nxt] = (node, common[0][0])
                                queue.append(nxt)
    return None


def shortest(a):
    A = _as_nfa(a)
    seen = {A.start}
    queue = deque([A.start])
    parents = {}
    while queue:
        s = queue.popleft()
        cl = A.closure1(s)
        if A.accept in cl:
            return _path(parents, s)
        for s1 in cl:
            for ivs, dst in A.trans[s1]:
                if dst not in seen:
                    seen.add(dst)
                    parents[dst] = (s, ivs[0][0])
                    queue.append(dst)
    return None


def is_empty(a):
    return shortest(a) is None


def min_length(a):
    w = shortest(a)
    return None if w is None else len(w)


def accepts(a, word):
    """Membership test of a symbol sequence (used only on engine-made witnesses)."""
    A = _as_nfa(a)
    cur = A.closure([A.start])
    for sym in word:
        if isinstance(sym, str):
            sym = ord(sym)
        nxt = set()
        for s in cur:
            for ivs, dst in A.trans[s]:
                if iv_contains(ivs, sym):
                    nxt.add(dst)
        cur = A.closure(nxt)
        if not cur:
            return False
    return A.accept in cur


def alphabet_after(a, prefix_set):
    """Set of symbols that can follow a symbol of prefix_set somewhere in a word of L(a).
    Over-approximation computed on the NFA graph (all states assumed co-reachable)."""
    A = _as_nfa(a)
    out = ()
    for s in range(A.n):
        for ivs, dst in A.trans[s]:
            if iv_inter(ivs, prefix_set):
                for d in A.closure1(dst):
                    for ivs2, _ in A.trans[d]:
                        out = iv_union(out, ivs2)
    return out


def erase_symbols(rx, syms):
    """Homomorphic image of rx that deletes the given reserved symbols."""
    k = rx[0]
    if k == 'set':
        rest = iv_diff(rx[1], syms)
        hit = iv_inter(rx[1], syms)
        if hit and rest:
            return ralt(EPS, ('set', rest))
        if hit:
            return EPS
        return rx
    if k == 'cat':
        return rcat(*[erase_symbols(x, syms) for x in rx[1]])
    if k == 'alt':
        return ralt(*[erase_symbols(x, syms) for x in rx[1]])
    if k == 'star':
        return rstar(erase_symbols(rx[1], syms))
    return rx


def with_free_symbols(rx, syms):
    """Inverse image of `erase`: the given symbols may be inserted anywhere."""
    loop = rstar(rset(syms))
    k = rx[0]
    if k == 'set':
        return rcat(loop, rx, loop)
    if k == 'eps':
        return loop
    if k == 'cat':
        return rcat(loop, *[with_free_symbols(x, syms) for x in rx[1]])
    if k == 'alt':
        if not rx[1]:
            return rx
        return ralt(*[with_free_symbols(x, syms) for x in rx[1]])
    if k == 'star':
        return rcat(loop, rstar(with_free_symbols(rx[1], syms)), loop)
    return rx


def find_common_many(a, b, n=5, limit=200000):
    """Up to n distinct shortest words of L(a) & L(b)."""
    A = _as_nfa(a)
    B = _as_nfa(b)
    start = (A.start, B.start)
    queue = deque([(start, ())])
    seen = {}
    out = []
    steps = 0
    while queue and len(out) < n:
        node, word = queue.popleft()
        steps += 1
        if steps > limit:
            break
        a_st, b_st = node
        acl = A.closure1(a_st)
        bcl = B.closure1(b_st)
        if A.accept in acl and B.accept in bcl and list(word) not in out:
            out.append(list(word))
        if seen.get(node, 0) >= 3:
            continue
        seen[node] = seen.get(node, 0) + 1
        for a1 in acl:
            for a_set, a_dst in A.trans[a1]:
                for b1 in bcl:
                    for b_set, b_dst in B.trans[b1]:
                        common = iv_inter(a_set, b_set)
                        if common:
                            queue.append(((a_dst, b_dst), word + (common[0][0],)))
    return out
