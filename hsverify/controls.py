"""Sensitivity controls: textual mutants of the *current* /repo sources, applied in memory (never written
to /repo).  Each entry: (property, module, old, new, expectation, rule, name).
  'V'  the mutant breaks the property: the check must report a NEW violation (optionally of `rule`);
  'OK' behaviour-preserving edit: the check must stay silent (no new finding, no analysis error).
Used by `check.py --tier thorough` (a control that does not behave as expected is an ANALYSIS-ERROR: the
checker, not the repository, is broken) and by tests/mutants.py.  A control whose `old` text is not in the
tree being checked is reported as not applicable."""

M = []


def mut(prop, module, old, new, expect='V', rule=None, name=None):
    M.append((prop, module, old, new, expect, rule, name))


# ---- C20 ---------------------------------------------------------------------------
mut('C20', 'datatypes', 'return self.value - other', 'return other - self.value')
mut('C20', 'datatypes', 'return other / self.value', 'return other * self.value')
mut('C20', 'datatypes', """    def __mod__(self, other):
        if isinstance(other, Qty):
            other = other.value
""", """    def __mod__(self, other):
""")
mut('C20', 'datatypes', 'self._cmp_op(other, lambda x, y: x >= y)', 'self._cmp_op(other, lambda x, y: x > y)')
mut('C20', 'datatypes', """    def __rpow__(self, other):  # pragma: no cover
        # Unlikely due to Qty supporting these ops directly
        if isinstance(other, Qty):
            other = other.value
        return pow(other, self.value)
""", '')
mut('C20', 'datatypes', 'return pow(self.value, other, modulo)', 'return pow(self.value, other)')
mut('C20', 'datatypes', 'if other.unit != self.unit:', 'if other.unit == self.unit:')
mut('C20', 'datatypes', 'return op(self.value, other.value)', 'return op(other.value, self.value)')
mut('C20', 'datatypes', 'return abs(self.value)', 'return self.value')
mut('C20', 'datatypes', 'return ~self.value', 'return -self.value')
mut('C20', 'datatypes', """    def __xor__(self, other):
        if isinstance(other, Qty):""", """    def __xor__(self, other):
        if isinstance(other, BasicQuantity):""")
mut('C20', 'datatypes', 'return self.value + other', 'return (self.value + other)', 'OK')
mut('C20', 'datatypes', """        if isinstance(other, Qty):
            other = other.value
        return self.value * other""", """        other = other.value if isinstance(other, Qty) else other
        return self.value * other""", 'OK')
mut('C20', 'datatypes', 'self.value = value', 'self.value = float(value)')
mut('C20', 'datatypes', "return self.value // other", "return self.value / other")

# ---- C18 ---------------------------------------------------------------------------
mut('C18', 'version', 'return self._cmp(other) < 1', 'return self._cmp(other) < 0')
mut('C18', 'version', 'return self._cmp(other) > -1', 'return self._cmp(other) >= 0', 'OK')
mut('C18', 'version', """        if self.version_extra is None:
            if other.version_extra is None:
                return 0
            else:
                return -1
        elif other.version_extra is None:
            return 1""", """        if self.version_extra is None:
            if other.version_extra is None:
                return 0
            else:
                return 1
        elif other.version_extra is None:
            return -1""")
mut('C18', 'version', "int(p or 0) \\\n                    for p in", "(p or '0') \\\n                    for p in")
mut('C18', 'version', '        num2 += tuple([0 for n in range(len(num2), ver_len)])\n', '')
mut('C18', 'version', 'elif self.version_extra < other.version_extra:', 'elif self.version_extra > other.version_extra:')
mut('C18', 'version', 'elif self.version_extra < other.version_extra:', 'elif self.version_extra <= other.version_extra:', 'OK')
mut('C18', 'version', 'versions.sort(reverse=True)', 'versions.sort()')
mut('C18', 'version', """            if candidate == ver:
                # We can't beat this, make a note of the match for later
                return candidate
""", '')
mut('C18', 'version', 'if (best is None) and (candidate < ver):', 'if (best is None) and (candidate > ver):')
mut('C18', 'version', """            if p1 < p2:
                return -1
            elif p1 > p2:
                return 1""", """            if p1 > p2:
                return 1
            if p1 < p2:
                return -1""", 'OK')
mut('C18', 'version', """        if not isinstance(other, Version):
            other = Version(other)

        num1""", """        num1""")
mut('C18', 'version', "elif self.version_extra == other.version_extra:\n            return 0",
    "elif self.version_extra == other.version_extra:\n            return 1")

# ---- C16 ---------------------------------------------------------------------------
mut('C16', 'sortabledict', "            index += 1\n", "            index += 2\n")
mut('C16', 'sortabledict', "        if after and (index is not None):", "        if (not after) and (index is not None):")
mut('C16', 'sortabledict', """                del self[key]
                if (pos_key""", """                if (pos_key""", name='relocation without delete')
mut('C16', 'sortabledict', """                if (pos_key is not None) and (old_index < index):
                    # The position of pos_key was looked up before the key
                    # was removed from in front of it: it has moved down one.
                    index -= 1
""", "", name='revert fix: stale position')
mut('C16', 'sortabledict', "(old_index < index):", "(old_index > index):", name='stale adjust wrong direction')
mut('C16', 'sortabledict', """            if not replace:
                raise KeyError('%r is duplicate' % key)
""", "")
mut('C10', 'sortabledict', """        if self._validate_fn:
            self._validate_fn(value)

        if (index""", """        if (index""", name='drop validator call')
mut('C16', 'sortabledict', "self._order.insert(index, key)", "self._order.insert(index + 1, key)")
mut('C16', 'sortabledict', """                # We are updating
                self._values[key] = value
                return""", """                # We are updating
                self._values[key] = value
                self._order.remove(key)
                self._order.append(key)
                return""")
mut('C16', 'sortabledict', """        del self._values[key]
        self._order.remove(key)""", """        self._order.remove(key)
        del self._values[key]""")
mut('C16', 'sortabledict', "return self._order[index]", "return self._order[index - 1]")
mut('C16', 'metadata', "def append(self, key, value=MARKER, replace=True):", "def append(self, key, value=None, replace=True):")
mut('C16', 'metadata', "self.append(key, value, replace=replace)", "self.append(key, value)")
mut('C16', 'sortabledict', """            # Place at end
            self._order.append(key)
        self._values[key] = value""", """            # Place at end
            self._values[key] = value
            self._order.append(key)
            return
        self._values[key] = value""", 'OK')
mut('C16', 'sortabledict', """        if self._validate_fn:
            self._validate_fn(value)
""", """        if self._validate_fn:
            self._validate_fn(value)
        self._values[key] = value
""", name='store before refusals')

# ---- C19 ---------------------------------------------------------------------------
mut('C19', 'datatypes', """        if not isinstance(other, Ref):
            return NotImplemented
        return not (self == other)""", """        if not isinstance(other, Ref):
            return NotImplemented
        return (self == other)""")
mut('C19', 'datatypes', "return hash(self.latitude) ^ hash(self.longitude)", "return hash(self.latitude) ^ hash(self.longitude) ^ hash(id(self))")
mut('C19', 'datatypes', """               (self.has_value == other.has_value) and \\
               (self.value == other.value)""", """               True""")
mut('C19', 'datatypes', """    def __deepcopy__(self, memo):
        return self""", """    def __deepcopy__(self, memo):
        return self.__class__()""")
mut('C19', 'grid', """        if len(self) != len(other):
            return False
""", "")
mut('C19', 'grid', "if set(self.column.keys()) != set(other.column.keys()):", "if set(self.column.keys()) == set(other.column.keys()):")
mut('C19', 'datatypes', "        return (self.latitude == other.latitude) and \\\n               (self.longitude == other.longitude)",
    "        return (self.latitude == other.latitude) or \\\n               (self.longitude == other.longitude)")
mut('C19', 'datatypes', "REMOVE = RemoveType()", "REMOVE = RemoveType()\nREMOVE_2 = RemoveType()")

# ---- C14 / C15 -----------------------------------------------------------------------
mut('C14', 'grid', "        return len(self._row)", "        return len(self._row) - 1")
mut('C14', 'grid', """        if not isinstance(value, dict):
            raise TypeError('value must be a dict')
        for val in value.values():
            self._detect_or_validate(val)
        self._row.insert(index, value)""", """        if not isinstance(value, dict):
            raise TypeError('value must be a dict')
        self._row.insert(index, value)
        for val in value.values():
            self._detect_or_validate(val)""", name='insert: write before validation')
mut('C14', 'grid', """        if not isinstance(value, dict):
            raise TypeError('value must be a dict')
        for val in value.values():
            self._detect_or_validate(val)
        self._row.insert""", """        for val in value.values():
            self._detect_or_validate(val)
        self._row.insert""", name='insert: no TypeError guard')
mut('C14', 'grid', "self._row.insert(index, value)", "self._row.insert(index + 1, value)")
mut('C14', 'grid', "result._row=self._row[key]", "result._row=self._row")
mut('C14', 'grid', "result=Grid(version=self.version,metadata=self.metadata,columns=self.column)", "result=Grid(version=self.version,columns=self.column)")
mut('C14', 'grid', "            return self._row[key]", "            return self._row[abs(key)]")
mut('C14', 'grid', """        del self._row[index]
        self.reindex()""", """        if "id" in self._row[index]:
            self._index.pop(self._row[index]['id'], None)
        del self._row[index]""", name='revert fix: delitem')
mut('C15', 'grid', """        del self._row[index]
        self.reindex()""", """        if "id" in self._row[index]:
            self._index.pop(self._row[index]['id'], None)
        del self._row[index]""", name='revert fix: delitem')
mut('C15', 'grid', """        self._row[index] = value
        # Rebuild the id index: the replaced row's entry must go (unless the
        # same row is still present elsewhere) and the new one must appear.
        self.reindex()""", """        self._row[index] = value""", name='setitem without reindex')
mut('C15', 'grid', """        super(Grid, self).extend(values)  # Python 2 compatible :-(
        # super().extend(values)  # Python 3+ :-)
        self.reindex()""", """        super(Grid, self).extend(values)  # Python 2 compatible :-(
        for item in self._row:
            if "id" in item:
                self._index[str(item["id"])] = item""", name='revert fix: extend')
mut('C15', 'grid', """            if not self._index:
                self.reindex()
            self._index[str(value["id"])] = value""", """            self._index[str(value["id"])] = value""", name='insert without ensure-index')
mut('C15', 'grid', 'self._index[str(value["id"])] = value', 'self._index[value["id"]] = value')
mut('C15', 'grid', "return self._index[str(key)]", "return self._index[key]")
mut('C15', 'grid', """        index = {}
        for item in self._row:""", """        index = self._index or {}
        for item in self._row:""", name='reindex keeps stale entries')
mut('C15', 'grid', "return self._index.get(str(index), default)", "return self._index.get(str(index))")
mut('C15', 'grid', "            result._index=None\n", "            result._index=self._index\n")
mut('C15', 'zincparser', "    g.extend(map(lambda row: dict(zip(col_meta.keys(), row)), rows))", "    g._row.extend(map(lambda row: dict(zip(col_meta.keys(), row)), rows))")

# ---- C12 / C13 -----------------------------------------------------------------------
mut('C12', 'datatypes', "return 'XStr(%r, %r)' % (self.encoding, self.data_to_string())", "return '%s(\"%s\")' % (self.encoding, self.data_to_string())", name='revert fix: XStr repr')
mut('C12', 'datatypes', """        return '%s(%r, %r, %r)' % (
            self.__class__.__name__, self.name, self.value, self.has_value
        )""", """        return '%s(%r, %s, %r)' % (
            self.__class__.__name__, self.name, self.value, self.has_value
        )""", name='Ref repr with %s')
mut('C12', 'grid_filter', "def_filter.append(repr(node))", "def_filter.append(str(node))")
mut('C12', 'grid_filter', "return FilterAST(hs_filter.parseString(filter, parseAll=True)[0])", "return FilterAST(hs_filter.parseString(filter, parseAll=False)[0])")
mut('C12', 'grid_filter', "hs_id = Regex(r'[a-z][a-zA-Z0-9_]*')", "hs_id = Regex(r'[a-z][a-zA-Z0-9_\\]\\[)(,]*')")
mut('C12', 'grid_filter', 'hs_cmpOp = Literal("==") | Literal("!=")', 'hs_cmpOp = Regex(r"[=!<>a-z(]+") | Literal("==") | Literal("!=")')
mut('C12', 'datatypes', """        return '%s(%s)' % (self.__class__.__name__,
                           super(Uri, self).__repr__())""", """        return '%s(%s)' % (self.__class__.__name__, self)""", name='Uri repr unquoted')
mut('C12', 'grid', """        result = Grid(version=self.version, metadata=self.metadata, columns=self.column)
        fn = filter_function(filter)""", """        result = Grid(version=self.version, metadata=self.metadata, columns=self.column)
        self.metadata['lastFilter'] = filter
        fn = filter_function(filter)""", name='filter writes self.metadata')
mut('C12', 'grid_filter', "def _get_path(grid, obj, paths):\n    try:", "def _get_path(grid, obj, paths):\n    import os\n    try:")
mut('C13', 'grid_filter', """    with _id_function_lock:
        fun_name = "_gen_hsfilter_" + str(_id_function)
        _id_function += 1""", """    fun_name = "_gen_hsfilter_" + str(_id_function)
    _id_function += 1""", name='revert fix: lock')
mut('C13', 'grid_filter', """    with _id_function_lock:
        fun_name = "_gen_hsfilter_" + str(_id_function)
        _id_function += 1""", """    fun_name = "_gen_hsfilter_" + str(_id_function)
    with _id_function_lock:
        _id_function += 1""", name='read outside lock')
mut('C13', 'grid_filter', 'fun_name = "_gen_hsfilter_" + str(_id_function)', 'fun_name = "_gen_hsfilter_" + str(len(filter))')
mut('C13', 'grid_filter', "del globals()[self.fun_name]", "del globals()[sorted(k for k in globals() if k.startswith('_gen_hsfilter_'))[0]]")
mut('C13', 'grid_filter', "def _filter_function(filter):", "def _filter_function(filter, *extra):")
mut('C13', 'grid_filter', "    return _filter_function(filter).get()", "    return _filter_function(filter.strip()[:32]).get()")
mut('C13', 'grid_filter', "        _id_function += 1\n", "        _id_function += 0\n")

# ---- C11 -----------------------------------------------------------------------------
mut('C11', 'grid_filter', 'hs_condAnd = (hs_term + ZeroOrMore(Literal("and") + hs_term)).setParseAction(_fold_left)',
    'hs_condAnd = (hs_term + ZeroOrMore(Literal("and") + hs_term)).setParseAction(\n    lambda toks: FilterBinary("and", toks[0], toks[2]) if len(toks) > 1 else toks[0])', name='revert fix: and fold')
mut('C11', 'grid_filter', "for i in range(1, len(toks) - 1, 2):", "for i in range(1, len(toks) - 2, 2):", name='fold stops one operand early')
mut('C11', 'grid_filter', "node = FilterBinary(toks[i], node, toks[i + 1])", "node = FilterBinary(toks[i], toks[i - 1], toks[i + 1])", name='fold does not accumulate')
mut('C11', 'grid_filter', 'hs_condOr = (hs_condAnd + ZeroOrMore(Literal("or") + hs_condAnd))', 'hs_condOr = (hs_term + ZeroOrMore(Literal("or") + hs_term))', name='or over terms')
mut('C11', 'grid_filter', "hs_term = hs_parens | hs_missing | hs_cmp | hs_has", "hs_term = hs_parens | hs_missing | hs_has | hs_cmp")
mut('C11', 'grid_filter', 'hs_cmpOp = Literal("==") | Literal("!=") | Literal("<=") | Literal(">=") | Literal("<") | Literal(">")',
    'hs_cmpOp = Literal("==") | Literal("!=") | Literal("<") | Literal("<=") | Literal(">=") | Literal(">")')
mut('C11', 'grid_filter', "lambda toks: FilterBinary(toks[1], toks[0], toks[2])", "lambda toks: FilterBinary(toks[1], toks[2], toks[0])")
mut('C11', 'grid_filter', "def_filter.append(') !=  id(NOT_FOUND))')", "def_filter.append(') ==  id(NOT_FOUND))')")
mut('C11', 'grid_filter', """        def_filter.append("(")
        def_filter.extend(_generate_filter_in_python(node.left, []))
        def_filter.append(" " + node.op + " ")
        def_filter.extend(_generate_filter_in_python(node.right, []))
        def_filter.append(")")""", """        def_filter.extend(_generate_filter_in_python(node.left, []))
        def_filter.append(" " + node.op + " ")
        def_filter.extend(_generate_filter_in_python(node.right, []))""", name='no parentheses')
mut('C11', 'grid_filter', "    '<': operator.lt, '<=': operator.le,", "    '<': operator.le, '<=': operator.lt,")
mut('C11', 'grid_filter', "        return _COMPARE_OPS[op](left, right)\n    except TypeError:", "        return _COMPARE_OPS[op](left, right)\n    except KeyError:")
mut('C11', 'grid_filter', "    except (KeyError, TypeError, IndexError):", "    except KeyError:", name='revert fix: _get_path TypeError')
mut('C11', 'grid_filter', """    def __lt__(self, other):
        return False
""", "", name='sentinel without __lt__')
mut('C11', 'grid_filter', """    def __ne__(self, other):
        return False

    def __lt__""", """    def __ne__(self, other):
        return True

    def __lt__""", name='sentinel != is True')
mut('C11', 'grid_filter', "if i != len(paths)-1 and isinstance(obj, Ref):", "if isinstance(obj, Ref):")
mut('C11', 'grid_filter', "import datetime\n", "from datetime import datetime\n", name='revert fix: datetime module')
mut('C11', 'grid_filter', """.setParseAction(
    lambda toks: [_unescape(toks[0], uri=False)]
)""", "", name='revert fix: str unescape')
mut('C11', 'grid_filter', "lambda toks: Uri(_unescape(toks[0], uri=True))", "lambda toks: Uri(_unescape(toks[0], uri=False))")
mut('C11', 'grid_filter', r"""hs_strChar = Regex(r"([^\x00-\x1f\\\"]|\\[bfnrt\\\"$]|\\[uU][0-9a-fA-F]{4})")""",
    r"""hs_strChar = Regex(r"([^\x00-\x1f\\\"]|\\[bfnrt\\\"]|\\[uU][0-9a-fA-F]{4})")""", name='filter strChar loses \\$')
mut('C11', 'grid', "            if limit and len(result)==limit:", "            if limit and len(result)>limit:")
mut('C11', 'grid', "            if fn(self, row):\n                result.append(row)", "            if not fn(self, row):\n                result.append(row)")
mut('C11', 'grid', "        for row in self._row:\n            if fn(self, row):", "        for row in reversed(self._row):\n            if fn(self, row):")
mut('C11', 'grid', """        result = Grid(version=self.version, metadata=self.metadata, columns=self.column)
        fn = filter_function(filter)""", """        result = Grid(version=self.version, columns=self.column)
        fn = filter_function(filter)""")
mut('C11', 'grid_filter', "           hs_number | hs_na | hs_null | hs_marker | hs_bool | \\", "           hs_number | hs_null | hs_na | hs_marker | hs_bool | \\")

# ---- C10 -----------------------------------------------------------------------------
mut('C10', 'zincdumper', """    elif scalar is NA:
        if Version.nearest(version) < VER_3_0:
            raise ValueError('Project Haystack version %s ' \\
                             'does not support NA' \\
                             % version)
        return 'NA'""", """    elif scalar is NA:
        return 'NA'""", name='zinc writer: NA gate deleted')
mut('C10', 'jsondumper', """def dump_list(lst, version=LATEST_VER):
    if Version.nearest(version) < VER_3_0:""", """def dump_list(lst, version=LATEST_VER):
    if Version.nearest(version) <= VER_3_0:""", name='json dump_list <=')
mut('C10', 'jsondumper', """def dump_dict(dic, version=LATEST_VER):
    if Version.nearest(version) < VER_3_0:""", """def dump_dict(dic, version=LATEST_VER):
    if version < VER_3_0:""", name='revert fix: raw version in dump_dict')
mut('C10', 'grid', "                or isinstance(val, dict) \\\n", "", name='detect_or_validate forgets dict')
mut('C10', 'grid', "                or isinstance(val, XStr) \\\n", "", name='revert fix: XStr in detect_or_validate')
mut('C10', 'grid', """        for val in value.values():
            self._detect_or_validate(val)
        self._row.insert(index, value)""", """        self._row.insert(index, value)""", name='insert skips validation')
mut('C10', 'grid', "self.column = SortableDict(validate_fn=self._validate_column)", "self.column = SortableDict()", name='revert fix: column validator')
mut('C10', 'grid', "            if self._version_given:", "            if not self._version_given:")
mut('C10', 'grid', "        if self.nearest_version < version:", "        if self._version < version:")
mut('C10', 'jsonparser', """    elif scalar == NA_STR:
        if Version.nearest(version) < VER_3_0:
            raise ValueError('NA is not supported in Haystack version %s' \\
                             % version)
        return NA""", """    elif scalar == NA_STR:
        return NA""", name='revert fix: json reader NA gate')
mut('C10', 'zincparser', "                      hs_remove, hs_bool]).setName('scalar')", "                      hs_remove, hs_bool, hs_list[VER_2_0]]).setName('scalar')", name='2.0 grammar gains lists')
mut('C10', 'zincparser', "                      hs_date, hs_time, hs_coord, hs_number, hs_null, hs_marker,\n                      hs_remove, hs_bool]).setName('scalar')", "                      hs_date, hs_time, hs_coord, hs_number, hs_na, hs_null, hs_marker,\n                      hs_remove, hs_bool]).setName('scalar')", name='2.0 grammar gains NA')
mut('C10', 'zincparser', "        nearest = Version.nearest(ver)\n        g = self._known_grammars[nearest]", "        nearest = VER_3_0 if ver > VER_2_0 else VER_2_0\n        g = self._known_grammars[nearest]")
mut('C10', 'grid', "        self.metadata = MetadataObject(validate_fn=self._detect_or_validate)", "        self.metadata = MetadataObject()")
mut('C10', 'zincdumper', "            raise ValueError('Project Haystack version %s ' \\\n                             'does not support lists' \\\n                             % version)", "            raise NotImplementedError('lists')")

# ---- C08 (ZINC escapes) ------------------------------------------------------------
mut('C08', 'zincdumper', "STR_META = re.compile(r'([\\\\\"\\$\\u0080-\\uffff])')", "STR_META = re.compile(r'([\\\\\"\\u0080-\\uffff])')", 'OK', name='$ no longer escaped (reader accepts raw $)')
mut('C08', 'zincdumper', "STR_META = re.compile(r'([\\\\\"\\$\\u0080-\\uffff])')", "STR_META = re.compile(r'([\"\\$\\u0080-\\uffff])')", name='backslash no longer escaped')
mut('C08', 'zincdumper', "STR_META = re.compile(r'([\\\\\"\\$\\u0080-\\uffff])')", "STR_META = re.compile(r'([\\\\\\$\\u0080-\\uffff])')", name='quote no longer escaped')
mut('C08', 'datatypes', "    ('\\r', '\\\\r'),\n", "", 'OK', name='STR_SUB loses \\r (falls back to \\u000d)')
mut('C08', 'datatypes', "    ('\\r', '\\\\r'),\n", "    ('\\r', '\\\\n'),\n", name='\\r written as \\n')
mut('C08', 'zincdumper', """    str_value = STR_META.sub(str_sub, str_value)
    # Replace other escapes.
    for orig, esc in STR_SUB:
        str_value = str_value.replace(orig, esc)""", """    for orig, esc in STR_SUB:
        str_value = str_value.replace(orig, esc)
    str_value = STR_META.sub(str_sub, str_value)""", name='phases swapped')
mut('C08', 'zincdumper', """    if o >= 0x0080:
        # Unicode
        return '\\\\u%04x' % o
    elif c in '\\\\"$':""", """    if o >= 0x0080:
        # Unicode
        return '\\\\u%x' % o
    elif c in '\\\\"$':""", name='%04x -> %x')
mut('C08', 'zincdumper', "    return '\\\\u%04x' % ord(match.group(0))", "    return '\\\\x%02x' % ord(match.group(0))", name='control chars as \\xNN')
mut('C08', 'zincparser', "                elif esc_c == 'n':\n                    out += '\\n'", "                elif esc_c == 'n':\n                    out += '\\r'", name='_unescape maps \\n to CR')
mut('C08', 'zincparser', "out += six.unichr(int(s[2:6], base=16))\n                s = s[6:]", "out += six.unichr(int(s[2:6], base=16))\n                s = s[5:]", name='_unescape consumes 5 for \\u')
mut('C08', 'zincparser', 'hs_strChar = Regex(r"([^\\x00-\\x1f\\\\\\"]|', 'hs_strChar = Regex(r"([^\\x00-\\x1f\\\\\\"\']|', name="reader rejects apostrophe")
mut('C08', 'zincparser', ".setParseAction(lambda toks: [_unescape(toks[0], uri=False)])", ".setParseAction(lambda toks: [toks[0]])", name='hs_str without unescape')
mut('C08', 'zincdumper', "        return '@%s %s' % (ref.name, dump_str(ref.value))", "        return '@%s \"%s\"' % (ref.name, ref.value)", name='Ref display unescaped')
mut('C08', 'zincdumper', "                       dump_str(xstr_value.data_to_string(), version=version))", "                       '\"%s\"' % xstr_value.data_to_string())", name='revert fix: XStr payload raw')
mut('C08', 'zincdumper', "URI_META = re.compile(r'([\\\\`\\u0080-\\uffff])')", "URI_META = re.compile(r'([\\\\\\u0080-\\uffff])')", name='backtick no longer escaped in URIs')
mut('C08', 'zincdumper', """    str_value = CTRL_META.sub(ctrl_sub, str_value)
""", "", name='revert fix: control characters raw')
mut('C08', 'zincdumper', "    elif c in '\\\\\"$':\n        return '\\\\%s' % c", "    elif c in '\\\\\"':\n        return '\\\\%s' % c", name='str_sub forgets $ (deleted)')

# ---- C01 / C04 ---------------------------------------------------------------------
LADDER_STR = """    elif isinstance(scalar, six.string_types):
        return dump_str(scalar, version=version)
"""
LADDER_URI = """    elif isinstance(scalar, Uri):
        return dump_uri(scalar, version=version)
"""
mut('C01', 'zincdumper', LADDER_URI + LADDER_STR, LADDER_STR + LADDER_URI, name='str branch before Uri')
mut('C01', 'zincdumper', """    elif isinstance(scalar, datetime.datetime):
        return dump_date_time(scalar, version=version)
    elif isinstance(scalar, datetime.time):
        return dump_time(scalar, version=version)
    elif isinstance(scalar, datetime.date):
        return dump_date(scalar, version=version)
""", """    elif isinstance(scalar, datetime.date):
        return dump_date(scalar, version=version)
    elif isinstance(scalar, datetime.datetime):
        return dump_date_time(scalar, version=version)
    elif isinstance(scalar, datetime.time):
        return dump_time(scalar, version=version)
""", name='date branch before datetime')
mut('C01', 'zincdumper', """    elif isinstance(scalar, Coordinate):
        return dump_coord(scalar, version=version)
""", "", name='Coordinate branch deleted')
mut('C01', 'zincdumper', "        return '@%s %s' % (ref.name, dump_str(ref.value))", "        return '@%s%s' % (ref.name, dump_str(ref.value))", name='ref display without blank')
mut('C01', 'zincdumper', "    return 'C(%f,%f)' % (coordinate.latitude, coordinate.longitude)", "    return 'C(%f;%f)' % (coordinate.latitude, coordinate.longitude)")
mut('C01', 'zincdumper', "    return time.isoformat()", "    return time.strftime('%H:%M:%S')", name='time via strftime (drops microseconds)')
mut('C01', 'zincdumper', """            return '-INF'
    return str(decimal)""", """            return '-INF'
    return '%f' % decimal""", name='numbers via %f')
mut('C01', 'zincdumper', "    return '\\n'.join([header, columns] + rows + [''])", "    return '\\n'.join([header, columns] + rows)", name='no final newline')
mut('C01', 'zincdumper', "    return '\\n'.join([header, columns] + rows + [''])", "    return ''.join([header, columns] + rows + [''])", name='rows joined with nothing')
mut('C01', 'zincdumper', "    return ','.join(map(_dump, *_cols))", "    return ';'.join(map(_dump, *_cols))", name='columns joined with ;')
mut('C01', 'zincdumper', "        return '%s:%s' % (dump_id(item_id, version=version), \\\n", "        return '%s=%s' % (dump_id(item_id, version=version), \\\n", name='meta pair with =')
mut('C01', 'zincdumper', "    return '%s %s' % (date_time.isoformat(), tz_name)", "    return '%s%s' % (date_time.isoformat(), tz_name)", name='datetime without blank before zone')
mut('C01', 'zincdumper', """        elif decimal == float('inf'):
            return 'INF'""", """        elif decimal == float('inf'):
            return 'Inf'""", name='INF misspelt')
mut('C01', 'zincdumper', """        if decimal != decimal:
            return 'NaN'
        elif""", """        if False:
            return 'NaN'
        elif""", name='revert fix: nan')
mut('C01', 'zincdumper', "        return '{' + ' '.join([k + ':' + dump_scalar(v, version=version) for (k, v) in scalar.items()]) + '}'", "        return '{' + ','.join([k + ':' + dump_scalar(v, version=version) for (k, v) in scalar.items()]) + '}'", name='dict items joined with comma')
mut('C01', 'zincdumper', "        return \"<<\" + dump_grid(scalar) + \">>\"", "        return \"<\" + dump_grid(scalar) + \">\"", name='nested grid single brackets')
mut('C01', 'zincparser', "hs_tzName = Regex(r'[A-Z][a-zA-Z0-9_\\-]*')", "hs_tzName = Regex(r'[A-Z][a-z_]*')", name='reader zone names without digits/caps')
mut('C01', 'zincparser', "hs_refChar = Or([hs_alpha, hs_digit, Word('_:-.~', exact=1)])", "hs_refChar = Or([hs_alpha, hs_digit, Word('_:-.', exact=1)])", name='reader refChar loses ~')
mut('C01', 'zincparser', "hs_scalar_2_0 <<= Or([hs_ref, hs_bin, hs_str, hs_uri, hs_dateTime,", "hs_scalar_2_0 <<= Or([hs_ref, hs_bin, hs_str, hs_uri,", name='2.0 grammar loses dateTime')
mut('C01', 'zincparser', "    g.extend(map(lambda row: dict(zip(col_meta.keys(), row)), rows))", "    g.extend(map(lambda row: dict(zip(sorted(col_meta.keys()), row)), rows))", name='cells zipped onto sorted names')
mut('C01', 'zincparser', "hs_bool = Word('TF', min=1, max=1, exact=1).setParseAction( \\\n    lambda toks: [toks[0] == 'T'])", "hs_bool = Word('TF', min=1, max=1, exact=1).setParseAction( \\\n    lambda toks: [toks[0]])", name='reader bool yields text')
mut('C01', 'dumper', "        return '\\n'.join(map(_dump, grids))", "        return ''.join(map(_dump, grids))", name='grids joined without blank line')
mut('C01', 'zincdumper', "    return 'T' if bool(bool_value) else 'F'", "    return 'T' if bool(bool_value) else 'N'", name='False written as N')
mut('C04', 'zincdumper', """        elif decimal == float('inf'):
            return 'INF'""", """        elif decimal == float('inf'):
            return 'Inf'""", name='INF misspelt')
mut('C04', 'zincdumper', """    if Version.nearest(version) < VER_3_0:
        return 'Bin(%s)' % bin_value
""", "", name='2.0 Bin written in 3.0 form')
mut('C04', 'zincdumper', "        return '\\\\u%04x' % o\n    elif c in '\\\\\"$':", "        return '\\\\U%04x' % o\n    elif c in '\\\\\"$':", name='\\U escape (reader lenient, spec not)')
mut('C04', 'zincdumper', "    return ','.join([dump_scalar(row.get(c), version=grid.version) for \\\n                     c in list(grid.column.keys())])", "    return ','.join([dump_scalar(row.get(c), version=grid.version) for \\\n                     c in list(row.keys())])", name='row ranges over its own keys')
mut('C04', 'zincdumper', "    header = 'ver:%s' % dump_str(str(grid._version), version=grid._version)", "    header = 'ver:%s' % str(grid._version)", name='header version unquoted')
mut('C04', 'zincdumper', "    return 'C(%f,%f)' % (coordinate.latitude, coordinate.longitude)", "    return 'C(%s,%s)' % (coordinate.latitude, coordinate.longitude)", name='coordinate via str (exponent forms)')
mut('C04', 'zincdumper', "    uri_value = CTRL_META.sub(ctrl_sub, uri_value)", "    for orig, esc in STR_SUB:\n        uri_value = uri_value.replace(orig, esc)\n    uri_value = CTRL_META.sub(ctrl_sub, uri_value)", name='URI with \\n escapes (not in the grammar)')

# ---- C02 -----------------------------------------------------------------------------
mut('C02', 'jsondumper', "    return u's:%s' % str_value", "    return u'%s' % str_value", name='strings without s: prefix')
mut('C02', 'jsonparser', "REF_RE = re.compile(r'^r:([a-zA-Z0-9_:\\-.~]+)(:? (.*))?$',\n                    flags=re.DOTALL)", "REF_RE = re.compile(r'^r:([a-zA-Z0-9_:\\-.~]+)(:? (.*))?$',\n                    flags=re.MULTILINE)", name='revert fix: REF_RE flags')
mut('C02', 'jsonparser', "URI_RE = re.compile(r'u:(.*)$', flags=re.DOTALL)", "URI_RE = re.compile(r'u:(.+)$', flags=re.DOTALL)", name='revert fix: empty URI')
mut('C02', 'jsonparser', "        return XStr(*scalar[2:].split(':', 1))", "        return XStr(*scalar[2:].split(':'))", name='revert fix: XStr split')
mut('C02', 'jsonparser', "REF_RE = re.compile(r'^r:([a-zA-Z0-9_:\\-.~]+)(:? (.*))?$',", "REF_RE = re.compile(r'^r:([a-zA-Z0-9_:\\-.~ ]+)(:? (.*))?$',", name='ref name class gains blank (split moves)')
mut('C02', 'jsonparser', "    if scalar.startswith('s:'):\n        return scalar[2:]", "    if scalar.startswith('s:'):\n        return scalar[3:]", name='s: payload sliced at 3')
mut('C02', 'jsonparser', """    # Is it a string?
    if scalar.startswith('s:'):
        return scalar[2:]

    # Is it a xstr?""", """    # Is it a xstr?""", name='s: branch deleted')
mut('C02', 'jsonparser', """    # Is it a number?
    match = NUMBER_RE.match(scalar)""", """    # Is it a string?
    if scalar.startswith('s:'):
        return scalar[2:]
    # Is it a number?
    match = NUMBER_RE.match(scalar)""", 'OK', name='s: test moved before numbers (harmless)')
mut('C02', 'jsondumper', "        return 'n:%f %s' % (quantity.value, quantity.unit)", "        return 'n:%f%s' % (quantity.value, quantity.unit)", name='quantity without blank before unit')
mut('C02', 'jsondumper', "    return 'c:%f,%f' % (coordinate.latitude, coordinate.longitude)", "    return 'c:%f %f' % (coordinate.latitude, coordinate.longitude)")
mut('C02', 'jsondumper', "    return 'h:%s' % time.isoformat()", "    return 'h:%s' % time.strftime('%H:%M')", name='time without seconds (lossy)')
mut('C02', 'jsondumper', "    return 'd:%s' % date.isoformat()", "    return 'd:%s' % date.strftime('%Y%m%d')", name='date compact form')
mut('C02', 'jsondumper', """        if Version.nearest(version) < VER_3_0:
            return REMOVE2_STR
        else:
            return REMOVE3_STR""", """        if Version.nearest(version) < VER_3_0:
            return REMOVE3_STR
        else:
            return REMOVE2_STR""", name='Remove spellings swapped')
mut('C02', 'jsonparser', "REMOVE3_STR = '-:'", "REMOVE3_STR = 'r:'", name='3.0 Remove spelled r:')
mut('C02', 'jsonparser', "DATE_RE = re.compile(r'^d:(\\d{4})-(\\d{2})-(\\d{2})$', flags=re.MULTILINE)", "DATE_RE = re.compile(r'^d:(\\d{4})-(\\d{2})$', flags=re.MULTILINE)")
mut('C02', 'jsonparser', "(:? ([A-Za-z\\-+_0-9]+))?$',", "(:? ([A-Za-z_0-9]+))?$',", name='zone names without - and +')
mut('C02', 'jsonparser', "        grid.column[name] = meta", "        grid.column[name] = {}", name='column metadata dropped')
mut('C02', 'jsonparser', "    metadata = {}\n    for name, value in meta.items():\n        metadata[name] = parse_embedded_scalar(value, version=version)", "    metadata = {}\n    for name, value in sorted(meta.items()):\n        metadata[name] = parse_embedded_scalar(value, version=version)", name='metadata decoded in sorted order')
mut('C02', 'jsondumper', "        _meta['ver'] = str(version)", "        _meta['version'] = str(version)")
mut('C02', 'jsondumper', "    elif isinstance(scalar, bool):\n        return dump_bool(scalar, version=version)\n", "", name='bool branch deleted (falls to number)')
mut('C02', 'jsonparser', "    elif isinstance(scalar, bool):\n        return scalar\n", "", name='reader bool branch deleted')

# ---- C05 / C06 / C08.D2 --------------------------------------------------------------
mut('C05', 'jsonparser', "        parsed = copy.deepcopy(grid_str)", "        parsed = grid_str", name='input no longer deep-copied')
mut('C05', 'jsonparser', "        parsed = copy.deepcopy(grid_str)", "        parsed = dict(grid_str)", name='shallow copy only (cols/meta still shared)')
mut('C05', 'jsonparser', "NUMBER_RE = re.compile(r'^n:(-?\\d+(:?\\.\\d+)?(:?[eE][+\\-]?\\d+)?)(:? (.*))?$',", "NUMBER_RE = re.compile(r'^n:(-?\\d+(:?\\.\\d+)?)(:? (.*))?$',", name='NUMBER_RE loses exponent')
mut('C05', 'jsonparser', "TIME_RE = re.compile(r'^h:(\\d{2}):(\\d{2})(:?:(\\d{2}(:?\\.\\d+)?))?$',", "TIME_RE = re.compile(r'^h:(\\d{2}):(\\d{2})(:?:(\\d{2}(:?\\.\\d+)?))$',", name='TIME_RE requires seconds')
mut('C05', 'jsonparser', "    elif (scalar == REMOVE2_STR) or (scalar == REMOVE3_STR):", "    elif (scalar == REMOVE3_STR):", name='2.0 Remove spelling no longer read (becomes XStr / error)')
mut('C05', 'jsonparser', "    elif scalar == 'n:-INF':\n        return -float('INF')\n", "", name='n:-INF branch deleted')
mut('C05', 'jsonparser', "    for row in (parsed.pop('rows', []) or []):", "    for row in parsed.pop('rows'):", name='rows required')
mut('C05', 'jsonparser', """    elif isinstance(scalar, float) or isinstance(scalar, six.integer_types):
        return scalar
""", "", name='raw JSON numbers reach the regexes')
mut('C05', 'jsonparser', "(:? ([A-Za-z\\-+_0-9]+))?$',", "(:? ([A-Za-z\\-+_0-9]+))$',", name='zone name mandatory')
mut('C05', 'jsonparser', "    if scalar.startswith('s:'):\n        return scalar[2:]\n", "    if scalar.startswith('s:'):\n        return scalar[2:].strip()\n", name='payload post-processed (strip)')
mut('C05', 'jsonparser', "        name = col.pop('name')", "        name = col['name']", 'OK', name='(benign) name read without pop: name lands in column meta')
mut('C06', 'jsondumper', "    return u'b:%s' % bin_value", "    return u'bin:%s' % bin_value")
mut('C06', 'jsondumper', "    return 'c:%f,%f' % (coordinate.latitude, coordinate.longitude)", "    return 'c:%s,%s' % (coordinate.latitude, coordinate.longitude)", name='coordinate via str (exponent forms)')
mut('C06', 'jsondumper', "            return 'n:INF'", "            return 'n:Infinity'")
mut('C06', 'jsondumper', "    return json.dumps(_dump_grid_to_json(grid))", "    return str(_dump_grid_to_json(grid)).replace(\"'\", '\"')", name='hand-made JSON text')
mut('C06', 'jsondumper', "        'rows': dump_rows(grid),\n", "        'rows': dump_rows(grid),\n        'count': len(grid),\n", name='extra top-level key')
mut('C06', 'jsondumper', "        return u'r:%s %s' % (ref.name, ref.value)", "        return u'r:%s:%s' % (ref.name, ref.value)", name='ref display after colon')
mut('C06', 'jsondumper', "    return 't:%s %s' % (date_time.isoformat(), tz_name)", "    return 't:%s' % date_time.isoformat()", 'OK', name='zone name omitted (still well-formed)')
mut('C08', 'jsondumper', "    return u'x:%s:%s' % (xstr_value.encoding, xstr_value.data_to_string())", "    return u'x:%s %s' % (xstr_value.encoding, xstr_value.data_to_string())", name='xstr with blank separator')

# ---- C03 -----------------------------------------------------------------------------
mut('C03', 'zincparser', "hs_digits = Regex(r'[0-9_]+')", "hs_digits = Regex(r'[0-9]+')", name='digits lose _ separators')
mut('C03', 'zincparser', "hs_nl = Combine(And([Optional(Literal('\\r')), Literal('\\n')]))", "hs_nl = Combine(And([Literal('\\n')]))", name='CRLF no longer accepted')
mut('C03', 'zincparser', "            Suppress(Optional(hs_valueSep)), \\\n", "", name='trailing comma in lists rejected')
mut('C03', 'zincparser', "hs_dateSep = CaselessLiteral('T')", "hs_dateSep = Literal('T')", name='lower-case t rejected')
mut('C03', 'zincparser', "    CaselessLiteral('z'),", "    Literal('Z'),", name='lower-case z rejected')
mut('C03', 'zincparser', "hs_valueSep = Regex(r' *, *').setName('valueSep')", "hs_valueSep = Regex(r', *').setName('valueSep')", name='blank before comma rejected')
mut('C03', 'zincparser', "        Literal('NaN')\n    ]).setParseAction(lambda toks: [float(toks[0])])", "        Literal('Nan')\n    ]).setParseAction(lambda toks: [float(toks[0])])", name='NaN misspelt in reader')
mut('C03', 'zincparser', "    lambda toks: [toks[0] == 'T'])", "    lambda toks: [toks[0] == 'F'])", name='T and F exchanged')
mut('C03', 'zincparser', "    lambda toks: [''.join([t.replace('_', '') for t in toks[0]])])", "    lambda toks: [toks[0]])", name='digits keep _ (float fails)')
mut('C03', 'zincparser', "                elif esc_c == 't':\n                    out += '\\t'", "                elif esc_c == 't':\n                    out += ' '", name='\\t decodes to blank')
mut('C03', 'zincparser', "            if esc_c in ('u', 'U'):", "            if esc_c in ('U',):", name='\\u no longer decoded')
mut('C03', 'zincparser', "hs_exp = Combine(And([\n    CaselessLiteral('e'),", "hs_exp = Combine(And([\n    Literal('e'),", name='upper-case E exponent rejected')
mut('C03', 'zincparser', "    Optional(hs_tzHHMMOffset)\n])).setParseAction(lambda toks: [iso8601.parse_date(toks[0].upper())])", "    hs_tzHHMMOffset\n])).setParseAction(lambda toks: [iso8601.parse_date(toks[0].upper())])", 'OK', name='offset mandatory (spec requires it)')
mut('C03', 'zincparser', "    Optional(And([\n        Suppress(Literal(' ')),\n        hs_timeZoneName\n    ]))\n]).setParseAction(_parse_datetime)", "    And([\n        Suppress(Literal(' ')),\n        hs_timeZoneName\n    ])\n]).setParseAction(_parse_datetime)", name='zone name mandatory')
mut('C03', 'zincparser', "    lambda ver: Or([Empty().copy().setParseAction(lambda toks: [None]), \\\n                    hs_scalar[ver]]).setName('cell'))", "    lambda ver: Or([hs_scalar[ver]]).setName('cell'))", name='empty cells rejected')
mut('C03', 'parser', "        if grid_str:\n            grid_str += '\\n'\n", "", name='revert fix: final newline')
mut('C03', 'parser', "GRID_SEP = re.compile(r'(?<=\\n)(?:\\r?\\n)+')", "GRID_SEP = re.compile(r'(?<=\\n)\\n+')", name='revert fix: CRLF separator')
mut('C03', 'parser', "        grid_data = [g for g in GRID_SEP.split(grid_str) if g]", "        grid_data = GRID_SEP.split(grid_str)", name='revert fix: empty input')
mut('C03', 'parser', "        if grids:\n            return grids[0]", "        if grids:\n            return grids[-1]", name='single returns the last grid')
mut('C03', 'zincparser', "        (whole, frac) = time_str.split('.', 1)\n        time_str = whole + '.' + frac[:6]\n", "", name='revert fix: time fraction digits')
mut('C03', 'zincparser', "    Regex(u'[%_/$\\u0080-\\U0010ffff]')", "    Regex(u'[%_/$\\u0080-\\ufffe]')", name='revert fix: unit chars')
mut('C03', 'zincparser', "VERSION_RE = re.compile(r'^ver:\"(([^\"\\\\]|\\\\[\\\\\"bfnrt$])+)\"')", "VERSION_RE = re.compile(r'^ver:\"([0-9]\\.[0-9])\"')", name='version sniffer only accepts d.d')
mut('C03', 'zincparser', "hs_scalar_3_0 <<= Or([hs_ref, hs_xstr, hs_str, hs_uri, hs_dateTime,\n                      hs_date, hs_time, hs_coord, hs_number, hs_na, hs_null,", "hs_scalar_3_0 <<= Or([hs_ref, hs_xstr, hs_str, hs_uri, hs_dateTime,\n                      hs_date, hs_time, hs_coord, hs_null, hs_number, hs_na,", 'OK', name='reordering under longest-match Or (harmless)')

# ---- C09 -----------------------------------------------------------------------------
mut('C09', 'zincparser', """    except:
        LOG.debug('Failing grid: %r', grid_data, exc_info=1)
        (_, exc, _) = sys.exc_info()
        raise ZincParseException(
            'Failed to parse: %s' % exc, grid_data, 0, 0)
""", "", name='catch-all handler removed')
mut('C09', 'zincparser', """        raise ZincParseException(
            'Failed to parse: %s' % exc, grid_data, 0, 0)""", """        raise ValueError('Failed to parse: %s' % exc)""", name='catch-all raises plain ValueError')
mut('C09', 'zincparser', "def parse_grid(grid_data, parseAll=True):", "def parse_grid(grid_data, parseAll=False):")
mut('C09', 'zincparser', "def reformat_exception(ex_msg, line_num=None):\n", "def reformat_exception(ex_msg, line_num=None):\n    print(ex_msg)\n", name='revert fix: debug print in handler path')
mut('C09', 'zincparser', "def reformat_exception(ex_msg, line_num=None):\n", "def reformat_exception(ex_msg, line_num=None):\n    open('/tmp/zinc-errors.log', 'a').write(str(ex_msg))\n", name='handler path writes a log file')
mut('C09', 'zincparser', "    return [datetime.datetime.strptime(time_str, time_fmt).time()]", "    return [TIME_CACHE[time_str]]", 'OK', name='(unknown callee: not judged)')
mut('C09', 'zincparser', "    Suppress(Regex(r'\\[ *\\]')), \\\n", "    Suppress(Regex(r'[ *]')), \\\n", name='revert fix: [ *] accepts a lone *')
mut('C09', 'zincparser', "hs_id = Regex(r'[a-z][a-zA-Z0-9_]*').setName('id')", "hs_id = Regex(r'[a-zA-Z][a-zA-Z0-9_]*').setName('id')", name='tag names may start upper-case')
mut('C09', 'zincparser', 'hs_strChar = Regex(r"([^\\x00-\\x1f\\\\\\"]|\\\\[bfnrt\\\\\\"$]|', 'hs_strChar = Regex(r"([^\\x00-\\x1f\\\\\\"]|\\\\.|', name='any escape accepted')
mut('C09', 'zincparser', "class ZincParseException(ValueError):", "class ZincParseException(Exception):")
mut('C09', 'zincparser', "            Suppress(Regex(r' *\\]')) \\\n", "            Suppress(Optional(Regex(r' *\\]'))) \\\n", name='closing bracket optional')
mut('C09', 'zincparser', "        return hs_scalar[version].parseString(scalar_data, parseAll=True)[0]", "        return hs_scalar[version].parseString(scalar_data)[0]", name='scalar parse without parseAll')
mut('C09', 'datatypes', "                self.data = bytearray.fromhex(data)", "                self.data = HEX_TABLE[data]", 'OK', name='(unknown callee: not judged)')

# ---- C17 -----------------------------------------------------------------------------
mut('C17', 'zoneinfo', "        if dt.astimezone(pytz.timezone(olson_name)).utcoffset() == offset:", "        if pytz.timezone(olson_name).utcoffset(dt.replace(tzinfo=None)) == offset:", name='revert fix: wall-time utcoffset in the scan')
mut('C17', 'zoneinfo', "        if dt.astimezone(pytz.timezone(olson_name)).utcoffset() == offset:\n            return haystack_name", "        if True:\n            return haystack_name", name='scan returns the first zone')
mut('C17', 'zoneinfo', "    if offset == datetime.timedelta(0):\n        # UTC?\n        return 'UTC'", "    if offset <= datetime.timedelta(hours=1):\n        # UTC?\n        return 'UTC'", name='UTC shortcut too generous')
mut('C17', 'zoneinfo', "        _TZ_RMAP = dict([(z,n) for (n,z) in list(_TZ_MAP.items())])", "        _TZ_RMAP = dict([(z,n.lower()) for (n,z) in list(_TZ_MAP.items())])", name='reverse map not the swap')
mut('C17', 'zoneinfo', "        if suffix in todo:\n            tz_map[suffix] = full_tz\n            todo.discard(suffix)\n            continue", "        if suffix in HAYSTACK_TIMEZONES_SET:\n            tz_map[suffix] = full_tz\n            continue", name='suffix re-mapped by later zones')
mut('C17', 'zincparser', "            return [isodt.astimezone(tz)]", "            return [isodt.replace(tzinfo=tz)]", name='zinc reader replace(tzinfo)')
mut('C17', 'jsonparser', "                return isodate.astimezone(tz)", "                return tz.localize(isodate.replace(tzinfo=None))", name='json reader localize')
mut('C17', 'zincdumper', "    return '%s %s' % (date_time.isoformat(), tz_name)", "    return '%s %s' % (date_time.astimezone(pytz.utc).isoformat(), tz_name)", name='writer converts to UTC but keeps the zone name')
mut('C17', 'zoneinfo', "    raise ValueError('Unable to get timezone of %r' % dt)", "    return 'UTC'", name='unmappable tz written as UTC')
mut('C17', 'zoneinfo', "    except AttributeError:\n        # Not a pytz-compatible tzinfo\n        pass\n", "", name='AttributeError no longer caught')

# ---- C07 -----------------------------------------------------------------------------
mut('C07', 'jsondumper', "    _meta = dict(map(_dump, list(meta.items())))\n    if grid:\n        _meta['ver'] = str(version)\n    return _meta", "    if grid:\n        meta['ver'] = str(version)\n    _meta = dict(map(_dump, list(meta.items())))\n    return _meta", name='ver stored into the grid metadata itself')
mut('C07', 'zincdumper', "    return ','.join([dump_scalar(row.get(c), version=grid.version) for \\\n                     c in list(grid.column.keys())])", "    return ','.join([dump_scalar(row.pop(c, None), version=grid.version) for \\\n                     c in list(grid.column.keys())])", name='row.pop instead of row.get')
mut('C07', 'zincdumper', "def dump_rows(grid):\n    return list(map(functools.partial(dump_row, grid), grid))", "def dump_rows(grid):\n    grid.reverse()\n    return list(map(functools.partial(dump_row, grid), grid))", name='rows reversed in place')
mut('C07', 'jsondumper', "def dump_column(col, col_meta, version=LATEST_VER):\n    if bool(col_meta):\n        _meta = dump_meta(col_meta, version=version)\n    else:\n        _meta = {}", "def dump_column(col, col_meta, version=LATEST_VER):\n    if bool(col_meta):\n        _meta = dump_meta(col_meta, version=version)\n    else:\n        _meta = col_meta", name='column meta aliased then name stored into it')
mut('C07', 'zincdumper', "    return ' '.join(map(_dump, list(meta.items())))", "    return ' '.join(map(_dump, set(meta.items())))", name='metadata items iterated through a set')
mut('C07', 'jsondumper', "    elif isinstance(scalar, Coordinate):\n        return dump_coord(scalar, version=version)\n", "", name='JSON ladder loses Coordinate')
mut('C07', 'zincdumper', "        if Version.nearest(version) < VER_3_0:\n            raise ValueError('Project Haystack version %s ' \\\n                             'does not support dicts' \\", "        if version < VER_3_0:\n            raise ValueError('Project Haystack version %s ' \\\n                             'does not support dicts' \\", name='raw version compare in zinc dict gate')
mut('C07', 'zoneinfo', "    for full_tz in pytz.all_timezones:", "    for full_tz in set(pytz.all_timezones):", name='zone map built by iterating a set')




# ---- behaviour-preserving refactors (must stay silent) ----------------------------------
mut('C05', 'jsonparser', """        parsed = copy.deepcopy(grid_str)
    meta = parsed.pop('meta')""", """        parsed = copy.deepcopy(grid_str)
    return _parse_grid(parsed)


def _parse_grid(parsed):
    meta = parsed.pop('meta')""", 'OK', name='refactor: parse_grid split into copy + worker')
mut('C02', 'jsonparser', """        parsed = copy.deepcopy(grid_str)
    meta = parsed.pop('meta')""", """        parsed = copy.deepcopy(grid_str)
    return _parse_grid(parsed)


def _parse_grid(parsed):
    meta = parsed.pop('meta')""", 'OK', name='refactor: parse_grid split into copy + worker')
mut('C02', 'jsonparser', """    metadata = {}
    for name, value in meta.items():
        metadata[name] = parse_embedded_scalar(value, version=version)""", """    grid_meta = {}
    for tag, raw in meta.items():
        grid_meta[tag] = parse_embedded_scalar(raw, version=version)
    metadata = grid_meta""", 'OK', name='refactor: locals renamed in parse_grid')

mut('C14', 'grid', """            result=Grid(version=self.version,metadata=self.metadata,columns=self.column)
            result._row=self._row[key]
            result._index=None
            return result""", """            part=Grid(version=self.version,metadata=self.metadata,columns=self.column)
            part._row=self._row[key]
            part._index=None
            return part""", 'OK', name='refactor: rename local in slice branch')
mut('C15', 'grid', """            result=Grid(version=self.version,metadata=self.metadata,columns=self.column)
            result._row=self._row[key]
            result._index=None
            return result""", """            part=Grid(version=self.version,metadata=self.metadata,columns=self.column)
            part._row=self._row[key]
            part._index=None
            return part""", 'OK', name='refactor: rename local in slice branch')
mut('C10', 'grid', """                mo = MetadataObject(validate_fn=self._detect_or_validate)
                mo.extend(col_meta)
                self.column.add_item(col_id, mo)""", """                col_md = MetadataObject(validate_fn=self._detect_or_validate)
                col_md.extend(col_meta)
                self.column.add_item(col_id, col_md)""", 'OK', name='refactor: rename local in Grid.__init__')
mut('C13', 'grid_filter', """        fun_name = "_gen_hsfilter_" + str(_id_function)
        _id_function += 1
    function_template = "def %s(_grid, _entity):\\n  return " % fun_name + "".join(def_filter)
    print("\\nGenerate:\\n# " + filter + "\\n" + function_template)  # FIXME: debug
    return _FnWrapper(fun_name, function_template)""", """        name = "_gen_hsfilter_" + str(_id_function)
        _id_function += 1
    function_template = "def %s(_grid, _entity):\\n  return " % name + "".join(def_filter)
    print("\\nGenerate:\\n# " + filter + "\\n" + function_template)  # FIXME: debug
    return _FnWrapper(name, function_template)""", 'OK', name='refactor: rename fun_name')
mut('C12', 'grid_filter', """        fun_name = "_gen_hsfilter_" + str(_id_function)
        _id_function += 1
    function_template = "def %s(_grid, _entity):\\n  return " % fun_name + "".join(def_filter)
    print("\\nGenerate:\\n# " + filter + "\\n" + function_template)  # FIXME: debug
    return _FnWrapper(fun_name, function_template)""", """        name = "_gen_hsfilter_" + str(_id_function)
        _id_function += 1
    function_template = "def %s(_grid, _entity):\\n  return " % name + "".join(def_filter)
    print("\\nGenerate:\\n# " + filter + "\\n" + function_template)  # FIXME: debug
    return _FnWrapper(name, function_template)""", 'OK', name='refactor: rename fun_name')
mut('C11', 'grid_filter', "    lambda toks: FilterBinary(toks[1], toks[0], toks[2])", "    lambda t: FilterBinary(t[1], t[0], t[2])", 'OK', name='refactor: rename lambda parameter')
mut('C11', 'grid_filter', """    lambda toks: FilterUnary("not", toks[0])""", """    lambda parts: FilterUnary("not", parts[0])""", 'OK', name='refactor: rename lambda parameter (not)')
mut('C01', 'zincparser', """    g = Grid(version=grid_meta.pop('ver'),
             metadata=grid_meta,
             columns=list(col_meta.items()))
    g.extend(map(lambda row: dict(zip(col_meta.keys(), row)), rows))
    return g""", """    grid = Grid(version=grid_meta.pop('ver'),
                metadata=grid_meta,
                columns=list(col_meta.items()))
    grid.extend(map(lambda r: dict(zip(col_meta.keys(), r)), rows))
    return grid""", 'OK', name='refactor: rename locals in _gen_grid')
mut('C09', 'zincparser', """    except pp.ParseException as pe:
        LOG.debug('Failing grid: %r', grid_data)
        raise ZincParseException(
            'Failed to parse: %s' % reformat_exception(pe, pe.lineno),
            grid_data, pe.lineno, pe.col)""", """    except pp.ParseException as err:
        LOG.debug('Failing grid: %r', grid_data)
        raise ZincParseException(
            'Failed to parse: %s' % reformat_exception(err, err.lineno),
            grid_data, err.lineno, err.col)""", 'OK', name='refactor: rename exception variable')
mut('C16', 'sortabledict', """        if (index is not None) and (pos_key is not None):
            raise ValueError('Either specify index or pos_key, not both.')
        elif pos_key is not None:""", """        if index is not None and pos_key is not None:
            raise ValueError('Either specify index or pos_key, not both.')
        if pos_key is not None:""", 'OK', name='refactor: elif -> if after raise')
mut('C19', 'datatypes', """    def __eq__(self, other):
        if not isinstance(other, Coordinate):
            return NotImplemented
        return (self.latitude == other.latitude) and \\
               (self.longitude == other.longitude)""", """    def __eq__(self, rhs):
        if not isinstance(rhs, Coordinate):
            return NotImplemented
        return (self.latitude == rhs.latitude) and \\
               (self.longitude == rhs.longitude)""", 'OK', name='refactor: rename parameter of __eq__')
mut('C18', 'version', """        num1 = self.version_nums
        num2 = other.version_nums

        # Pad both to be the same length
        ver_len = max(len(num1), len(num2))
        num1 += tuple([0 for n in range(len(num1), ver_len)])
        num2 += tuple([0 for n in range(len(num2), ver_len)])""", """        mine = self.version_nums
        theirs = other.version_nums

        # Pad both to be the same length
        width = max(len(mine), len(theirs))
        mine += tuple([0 for n in range(len(mine), width)])
        theirs += tuple([0 for n in range(len(theirs), width)])

        num1 = mine
        num2 = theirs""", 'OK', name='refactor: rename padding locals')
mut('C20', 'datatypes', """    def __add__(self, other):
        if isinstance(other, Qty):
            other = other.value
        return self.value + other""", """    def __add__(self, rhs):
        if isinstance(rhs, Qty):
            rhs = rhs.value
        return self.value + rhs""", 'OK', name='refactor: rename operand parameter')
mut('C05', 'parser', """        if isinstance(grid_str, six.string_types):
            grid_data = json.loads(grid_str)
        else:
            grid_data = grid_str""", """        if isinstance(grid_str, six.string_types):
            decoded = json.loads(grid_str)
        else:
            decoded = grid_str
        grid_data = decoded""", 'OK', name='refactor: intermediate local in parse')
mut('C07', 'jsondumper', """    _meta = dict(map(_dump, list(meta.items())))
    if grid:
        _meta['ver'] = str(version)
    return _meta""", """    out = dict(map(_dump, list(meta.items())))
    if grid:
        out['ver'] = str(version)
    return out""", 'OK', name='refactor: rename local in dump_meta')
mut('C06', 'jsondumper', """    _meta = dict(map(_dump, list(meta.items())))
    if grid:
        _meta['ver'] = str(version)
    return _meta""", """    out = dict(map(_dump, list(meta.items())))
    if grid:
        out['ver'] = str(version)
    return out""", 'OK', name='refactor: rename local in dump_meta')
mut('C02', 'jsondumper', """    _meta = dict(map(_dump, list(meta.items())))
    if grid:
        _meta['ver'] = str(version)
    return _meta""", """    out = dict(map(_dump, list(meta.items())))
    if grid:
        out['ver'] = str(version)
    return out""", 'OK', name='refactor: rename local in dump_meta')
mut('C17', 'zoneinfo', """    for olson_name, haystack_name in list(tz_rmap.items()):
        if dt.astimezone(pytz.timezone(olson_name)).utcoffset() == offset:
            return haystack_name""", """    for olson, name in list(tz_rmap.items()):
        if dt.astimezone(pytz.timezone(olson)).utcoffset() == offset:
            return name""", 'OK', name='refactor: rename loop variables in the scan')
mut('C03', 'parser', """        grid_str = TRAILING_NL_RE.sub('', grid_str)
        if grid_str:
            grid_str += '\\n'
        grid_data = [g for g in GRID_SEP.split(grid_str) if g]""", """        text = TRAILING_NL_RE.sub('', grid_str)
        if text:
            text += '\\n'
        grid_data = [piece for piece in GRID_SEP.split(text) if piece]""", 'OK', name='refactor: rename locals in parse framing')

# ---- C19 additions (reverts of the later fixes) ---------------------------------------
mut('C19', 'grid', """        elif isinstance(v2, (datetime.time, datetime.datetime,
                             Quantity, Coordinate)):
            # v1 is none of these kinds (a Quantity would otherwise compare
            # equal to a plain number from one side only)
            return False
""", "", name='revert fix: right-operand kind guard')
mut('C19', 'grid', """            return (v1 == v2) or (v1 != v1 and v2 != v2) or \\
                   abs(v1 - v2) < 0.000001""", """            return abs(v1 - v2) < 0.000001""", name='revert fix: NaN/INF reflexivity')
mut('C19', 'grid', """                if key not in other.column[col] or \\
                        not Grid._approx_check(self.column[col][key], other.column[col][key]):""", """                if not Grid._approx_check(self.column[col][key], other.column[col][key]):""", name='revert fix: column metadata tag names')
mut('C19', 'grid', """        elif isinstance(v1, bool) or isinstance(v2, bool):
            # a boolean is not a number
            return isinstance(v1, bool) and isinstance(v2, bool) and v1 == v2
""", "", name='revert fix: booleans vs numbers')

# ---- round 2: float tolerance shape ------------------------------------------------------
_TOL = """            return (v1 == v2) or (v1 != v1 and v2 != v2) or \\
                   abs(v1 - v2) < 0.000001"""
mut('C19', 'grid', _TOL, """            return (v1 == v2) or (v1 != v1 and v2 != v2) or \\
                   abs(v1 - v2) < 0.001""", name='tolerance widened to 1e-3')
mut('C19', 'grid', _TOL, """            return (v1 == v2) or (v1 != v1 and v2 != v2)""", name='tolerance dropped')
mut('C19', 'grid', _TOL, """            return (v1 == v2) or (v1 != v1 and v2 != v2) or \\
                   abs(v1 - v2) < 0.000001 * max(abs(v1), abs(v2))""", name='tolerance made relative by hand')
mut('C19', 'grid', "import numbers\n", "import numbers\nimport math\n", 'OK', name='refactor: import math')
mut('C19', 'grid', _TOL, """            return (v2 == v1) or (v1 != v1 and v2 != v2) or \\
                   abs(v2 - v1) <= 0.000001""", 'OK', name='refactor: operands swapped in tolerance test')

# ---- round 2: escape decoding must be one pass ---------------------------------------------
_UNESC_HEAD = """    Iterative parser for string escapes.
    \"\"\"
    out = ''
"""
mut('C08', 'zincparser', _UNESC_HEAD, """    Iterative parser for string escapes.
    \"\"\"
    s = re.sub(r'\\\\[uU]([0-9a-fA-F]{4})', lambda mo: six.unichr(int(mo.group(1), 16)), s)
    out = ''
""", name='unicode escapes decoded in a pre-pass')
mut('C03', 'zincparser', _UNESC_HEAD, """    Iterative parser for string escapes.
    \"\"\"
    s = s.replace('\\\\n', '\\n')
    out = ''
""", name='newline escape decoded in a pre-pass')
mut('C08', 'zincparser', _UNESC_HEAD, """    Iterative parser for string escapes.
    \"\"\"
    s = six.text_type(s)
    out = ''
""", 'OK', name='refactor: coerce subject to text before the scan')

# ---- round 2: sort/reverse rebuilt instead of in place ----------------------------------------
mut('C16', 'sortabledict', "        return self._order.sort(*args, **kwargs)", "        self._order = sorted(self._values, *args, **kwargs)", name='sort from the value dict (insertion order)')
mut('C16', 'sortabledict', "        return self._order.sort(*args, **kwargs)", "        self._order = sorted(self._order, *args, **kwargs)", 'OK', name='refactor: sort on a copy of the current order')
mut('C16', 'sortabledict', "        return self._order.reverse(*args, **kwargs)", "        self._order = list(reversed(self._values))", name='reverse from the value dict')

# ---- round 2: column writer restructured -------------------------------------------------------
_DUMPCOLS = """    _dump = functools.partial(dump_column, version=version)
    _cols = list(zip(*list(cols.items())))
    return ','.join(map(_dump, *_cols))"""
mut('C01', 'zincdumper', _DUMPCOLS, """    return ','.join([dump_column(col, col_meta)
                     for (col, col_meta) in cols.items()])""", name='column comprehension drops the version')
mut('C01', 'zincdumper', _DUMPCOLS, """    return ','.join([dump_column(col, col_meta, version=version)
                     for (col, col_meta) in cols.items()])""", 'OK', name='refactor: column comprehension keeps the version')

# ---- round 2: json.dumps options ------------------------------------------------------------
_JD = "    return json.dumps(_dump_grid_to_json(grid))"
mut('C02', 'jsondumper', _JD, "    return json.dumps(_dump_grid_to_json(grid), sort_keys=True)", name='sorted keys lose metadata order')
mut('C06', 'jsondumper', _JD, "    return json.dumps(_dump_grid_to_json(grid), sort_keys=True)", name='sorted keys lose metadata order')
mut('C06', 'jsondumper', _JD, "    return str(_dump_grid_to_json(grid))", name='python repr instead of JSON')
mut('C06', 'jsondumper', _JD, "    return json.dumps(_dump_grid_to_json(grid), separators=(',', ':'))", 'OK', name='refactor: compact separators')
mut('C02', 'jsondumper', _JD, "    doc = _dump_grid_to_json(grid)\n    return json.dumps(doc, ensure_ascii=True)", 'OK', name='refactor: local for the grid object')

# ---- round 2: header version / version locals ----------------------------------------------------
_DG2J = """    return {
        'meta': dump_meta(grid.metadata, version=grid.version, grid=True),
        'cols': dump_columns(grid.column, version=grid.version),
        'rows': dump_rows(grid),
    }"""
for _p in ('C02', 'C07', 'C10', 'C06'):
    mut(_p, 'jsondumper', _DG2J, """    version = grid.version
    return {
        'meta': dump_meta(grid.metadata, version=version, grid=True),
        'cols': dump_columns(grid.column, version=version),
        'rows': dump_rows(grid),
    }""", 'OK', name='refactor: version held in a local')
for _p in ('C02', 'C07'):
    mut(_p, 'jsondumper', _DG2J, """    version = grid.nearest_version
    return {
        'meta': dump_meta(grid.metadata, version=version, grid=True),
        'cols': dump_columns(grid.column, version=version),
        'rows': dump_rows(grid),
    }""", name='header written from the nearest version')
mut('C07', 'zincdumper', "header = 'ver:%s' % dump_str(str(grid._version), version=grid._version)",
    "header = 'ver:%s' % dump_str(str(grid.nearest_version), version=grid._version)", name='ZINC header written from the nearest version')
mut('C01', 'zincdumper', "header = 'ver:%s' % dump_str(str(grid._version), version=grid._version)",
    "header = 'ver:%s' % dump_str(str(grid.nearest_version), version=grid._version)", name='ZINC header written from the nearest version')
mut('C10', 'jsondumper', "        'cols': dump_columns(grid.column, version=grid.version),",
    "        'cols': dump_columns(grid.column, version=grid.nearest_version),", 'OK', name='refactor: nearest version passed to a nested writer')

# ---- round 2: result shaping of parser.parse -------------------------------------------------------
_SHAPE = """    grids = list(map(_parse, grid_data))
    if single:
        # Most of the time, we will only want one grid.
        if grids:
            return grids[0]
        else:
            return None
    else:
        return grids"""
_SHAPE_FIRST1 = """    if single:
        if grid_data:
            return _parse(grid_data[0])
        else:
            return None
    else:
        return list(map(_parse, grid_data))"""
mut('C09', 'parser', _SHAPE, _SHAPE_FIRST1, name='single=True parses the first block only')
mut('C03', 'parser', _SHAPE, _SHAPE_FIRST1, 'OK', name='(benign for well-formed input) single=True parses the first block only')
mut('C05', 'parser', _SHAPE, _SHAPE_FIRST1, 'OK', name='(benign for well-formed input) single=True parses the first block only')
for _p in ('C03', 'C05', 'C09'):
    mut(_p, 'parser', _SHAPE, """    grids = [_parse(piece) for piece in grid_data]
    if not single:
        return grids
    if len(grids) > 0:
        return grids[0]
    return None""", 'OK', name='refactor: result shaping with early returns')

# ---- round 2: the filter text reaches the grammar unchanged -------------------------------------------
mut('C11', 'grid_filter', "    return _filter_function(filter).get()", "    return _filter_function(' '.join(filter.split())).get()", name='filter text whitespace-normalised before parsing')
mut('C11', 'grid_filter', "    return FilterAST(hs_filter.parseString(filter, parseAll=True)[0])", "    return FilterAST(hs_filter.parseString(filter.lower(), parseAll=True)[0])", name='filter text lower-cased before parsing')
mut('C11', 'grid_filter', "    return _filter_function(filter).get()", "    text = filter\n    return _filter_function(text).get()", 'OK', name='refactor: local alias for the filter text')

# ---- round 2: module-level containers on the filter path ---------------------------------------------
_GEN_HEAD = "def _generate_filter_in_python(node, def_filter):\n"
mut('C13', 'grid_filter', _GEN_HEAD, """_seen_nodes = []


def _note_node(node):
    _seen_nodes.append(node)
    return len(_seen_nodes) - 1


""" + _GEN_HEAD, name='append then len() on a module-level list, no lock')
mut('C13', 'grid_filter', _GEN_HEAD, """_seen_nodes = []


def _note_node(node):
    with _id_function_lock:
        _seen_nodes.append(node)
        return len(_seen_nodes) - 1


""" + _GEN_HEAD, 'OK', name='(benign) append then len() inside the module lock')

# ---- round 3 -------------------------------------------------------------------------------------
_TZN_OLD = """    tz_rmap = get_tz_rmap(version=version)
    if dt.tzinfo is None:
        raise ValueError('%r has no timezone' % dt)
"""
for _p in ('C02', 'C17', 'C01', 'C06'):
    mut(_p, 'zoneinfo', _TZN_OLD, _TZN_OLD + """
    if dt.utcoffset() == datetime.timedelta(0):
        return 'UTC'
""", name='zero-offset shortcut before the mapped-zone lookup')
_B64 = """                return binascii.b2a_base64(self.data, newline=False).decode("ascii")"""
mut('C06', 'datatypes', _B64, """                return base64.encodebytes(self.data).decode("ascii").rstrip('\\n')""", name='b64 payload wrapped into 76-char lines')
mut('C06', 'datatypes', _B64, """                return base64.urlsafe_b64encode(self.data).decode("ascii")""", name='b64 payload in the url-safe alphabet')
mut('C06', 'datatypes', _B64, """                return base64.b64encode(self.data).decode("ascii")""", 'OK', name='refactor: base64.b64encode for the b64 payload')
mut('C06', 'datatypes', _B64, """                return base64.encodebytes(self.data).decode("ascii").replace('\\n', '')""", 'OK', name='refactor: encodebytes with every newline removed')
_DEC = """    if isinstance(grid_str, six.binary_type):
        grid_str = grid_str.decode(encoding=charset)
"""
for _p in ('C08', 'C01', 'C03'):
    mut(_p, 'parser', _DEC, _DEC + """    if isinstance(grid_str, six.text_type):
        grid_str = unicodedata.normalize('NFC', grid_str)
""", name='document text NFC-normalised before parsing')
mut('C08', 'parser', _DEC, _DEC + """    if isinstance(grid_str, six.text_type):
        grid_str = grid_str.replace('\\t', ' ')
""", name='tabs replaced in the document text before parsing')
mut('C08', 'jsonparser', "        return Uri(match.group(1))", "        return Uri(URI_META.sub(r'\\1', match.group(1)))", name='JSON URI payload unescaped by the reader')
mut('C05', 'jsonparser', "        return Bin(match.group(1))", "        return Bin(match.group(1).strip())", name='JSON Bin payload stripped')
mut('C02', 'jsonparser', "        return Uri(match.group(1))", "        uri_text = match.group(1)\n        return Uri(uri_text)", 'OK', name='refactor: local for the URI payload')
mut('C09', 'parser', "TRAILING_NL_RE = re.compile(r'(?:\\r?\\n)+$')", "TRAILING_NL_RE = re.compile(r'(?:\\s*\\r?\\n)+$')", name='trailing-newline regex with nested repeat (exponential backtracking)')
mut('C12', 'datatypes', "            return PintQuantity(value, to_pint(unit))", "            unit = to_pint(unit)\n            if unit and unit not in ureg:\n                ureg.define('%s = []' % unit)\n            return PintQuantity(value, unit)", name='unknown units registered while building a literal')
mut('C12', 'datatypes', "            return PintQuantity(value, to_pint(unit))", "            pint_unit = to_pint(unit)\n            return PintQuantity(value, pint_unit)", 'OK', name='refactor: local for the translated unit')
_GLEN = """    def __len__(self):
        '''
        Return the number of rows in the grid.
        '''"""
mut('C14', 'grid', _GLEN, """    def __contains__(self, row):
        if isinstance(row, dict) and "id" in row:
            return self.get(row["id"]) == row
        return row in self._row

""" + _GLEN, name='membership answered from the id index')
mut('C14', 'grid', _GLEN, """    def __contains__(self, row):
        return row in self._row

""" + _GLEN, 'OK', name='refactor: explicit __contains__ on the row list')

# ---- round 4 ----------------------------------------------------------------------------------------
mut('C01', 'zoneinfo', "def timezone_name(dt, version=LATEST_VER):", "@functools.lru_cache(maxsize=1024)\ndef timezone_name(dt, version=LATEST_VER):", name='timezone_name memoised on the datetime')
mut('C07', 'zincdumper', "def dump_scalar(scalar, version=LATEST_VER):", "@functools.lru_cache(maxsize=256)\ndef dump_scalar(scalar, version=LATEST_VER):", name='dump_scalar memoised on the value')
_USEC = "            usec = int(frac_sec[:6].ljust(6, '0'))"
mut('C05', 'jsonparser', _USEC, "            usec = int(float('0.' + frac_sec) * 1000000)", name='microseconds through float')
mut('C02', 'jsonparser', _USEC, "            usec = int(frac_sec[:6]) * 10 ** (6 - len(frac_sec))", name='fraction scaled by its unsliced length')
mut('C05', 'jsonparser', _USEC, "            usec = int(frac_sec[:6]) * 10 ** (6 - len(frac_sec[:6]))", 'OK', name='refactor: fraction scaled by its sliced length')
mut('C07', 'jsonparser', _USEC, "            usec = int((frac_sec + '000000')[:6])", 'OK', name='refactor: pad then cut')

# ---- mutation screening: silent survivors turned into controls ---------------------------------------
mut('C03', 'zincparser', "    Bin(toks[1]) if toks[0] == 'Bin' else XStr(toks[0], toks[1])])", "    Bin(toks[0]) if toks[0] == 'Bin' else XStr(toks[0], toks[1])])", name='Bin built from the type word')
mut('C03', 'zincparser', "    Bin(toks[1]) if toks[0] == 'Bin' else XStr(toks[0], toks[1])])", "    Bin(toks[1]) if toks[0] == 'Bin' else XStr(toks[1], toks[1])])", name='XStr type taken from the payload token')
mut('C11', 'grid_filter', "    lambda toks: Quantity(toks[0], toks[1])", "    lambda toks: Quantity(toks[0], toks[0])", name='filter quantity unit taken from the number token')
mut('C11', 'grid_filter', "    lambda toks: [Bin(toks[0])]", "    lambda toks: [Bin(toks[1])]", name='filter Bin from a token that does not exist')
mut('C03', 'zincparser', "    lambda toks: [Coordinate(toks[0], toks[1])])", "    lambda toks: [Coordinate(toks[1], toks[0])])", name='coordinate tokens swapped')
mut('C08', 'zincparser', "                out += six.unichr(int(s[2:6], base=16))\n                s = s[6:]\n                continue", "                out += six.unichr(int(s[2:6], base=16))\n                s = s[6:]\n                break", name='scan ends after a unicode escape')
mut('C01', 'zincparser', "                out += six.unichr(int(s[2:6], base=16))", "                out += six.unichr(int(s[2:7], base=16))", name='five hex digits read for a unicode escape')
mut('C04', 'zincparser', "                out += six.unichr(int(s[2:6], base=16))\n                s = s[6:]", "                out += six.unichr(int(s[2:6], base=16))\n                s = s[7:]", name='seven characters consumed for a unicode escape')
mut('C03', 'zincparser', "                out += six.unichr(int(s[2:6], base=16))\n                s = s[6:]\n                continue", "                out += six.unichr(int(s[2:6], base=16))\n                s = s[6:]\n                break", name='scan ends after a unicode escape')
mut('C03', 'zincparser', "                out += six.unichr(int(s[2:6], base=16))\n                s = s[6:]", "                out += six.unichr(int(s[2:6], base=16))\n                s = s[7:]", name='seven characters consumed for a unicode escape')
_ZDT = "    if len(toks) > 1:\n        tzname = toks[1]"
mut('C17', 'zincparser', _ZDT, "    if len(toks) > 2:\n        tzname = toks[1]", name='zone label taken only with three tokens')
mut('C03', 'zincparser', _ZDT, "    if len(toks) > 1:\n        tzname = toks[0]", name='zone label taken from the stamp token')
mut('C17', 'zincparser', "    elif bool(tzname):\n        try:", "    elif not bool(tzname):\n        try:", name='zone conversion under the inverted guard')
mut('C03', 'zincparser', "            tz = timezone(tzname)\n            return [isodt.astimezone(tz)]", "            return [isodt.astimezone(tz)]", name='zone look-up dropped (NameError swallowed)')
mut('C05', 'jsonparser', "        tzname = matches[-1]", "        tzname = matches[0]", name='JSON zone label from the wrong group')
mut('C05', 'jsonparser', "        if tzname is None:\n            return isodate  # No timezone given", "        if tzname is not None:\n            return isodate  # No timezone given", name='JSON zone guard inverted')
mut('C05', 'jsonparser', "        value = float(matched[0])\n        if matched[-1] is not None:", "        value = float(matched[0])\n        if matched[0] is not None:", name='JSON number/quantity decided on the wrong group')
mut('C11', 'grid_filter', "    for i in range(1, len(toks) - 1, 2):", "    for i in range(0, len(toks) - 1, 2):", name='fold starts at the first operand')
mut('C11', 'grid_filter', "    for i in range(1, len(toks) - 1, 2):", "    for i in range(1, len(toks) - 1, 1):", name='fold steps through every token')
mut('C19', 'grid', "            return isinstance(v1, bool) and isinstance(v2, bool) and v1 == v2", "            return isinstance(v1, bool) and isinstance(v2, bool) and v1 != v2", name='boolean cells compared with !=')
mut('C19', 'grid', "                    isinstance(v2, numbers.Number)):\n                return False", "                    isinstance(v2, numbers.Number)):\n                return True", name='not-a-number guard answers True')
mut('C10', 'grid', "        if isinstance(col_meta, dict) or isinstance(col_meta, SortableDict):\n            for val in col_meta.values():", "        if isinstance(col_meta, dict) and isinstance(col_meta, SortableDict):\n            for val in col_meta.values():", name='column validator guard: or -> and')
mut('C11', 'grid', "                result = Grid(version=self.version, metadata=self.metadata, columns=self.column)\n                result.extend(", "                result = Grid(metadata=self.metadata, columns=self.column)\n                result.extend(", name='limit-only filter result loses the version')
mut('C03', 'parser', "def parse(grid_str, mode=MODE_ZINC, charset='utf-8', single=True):", "def parse(grid_str, mode=MODE_ZINC, charset='utf-8', single=False):", name='parse() returns a list by default')
mut('C16', 'metadata', "    def extend(self, items, replace=True):", "    def extend(self, items, replace=False):", name='extend refuses existing tags by default')
mut('C17', 'zoneinfo', "    Return the timezone map, generating it if needed.\n    \"\"\"\n    _gen_map()\n", "    Return the timezone map, generating it if needed.\n    \"\"\"\n", name='get_tz_map does not build the map')
mut('C05', 'jsonparser', _USEC, "            usec = int(frac_sec[:5].ljust(6, '0'))", name='fraction cut to five digits')
mut('C02', 'jsonparser', _USEC, "            usec = int(frac_sec[:7].ljust(6, '0'))", name='fraction cut to seven digits')
mut('C20', 'datatypes', "    def __add__(self, other):\n        if isinstance(other, Qty):", "    def __add__(self, other):\n        if not isinstance(other, Qty):", name='unwrap guard inverted in __add__')
mut('C04', 'zincdumper', "    return 'Bin(%s)' % dump_str(bin_value, version=version)", "    return None", name='ZINC writer of Bin returns None under 3.0')
mut('C18', 'version', "VERSION_RE = re.compile(r'^(\\d[\\d\\.]*)([^\\d].*)*$')", "VERSION_RE = re.compile(r'^(\\d[\\d\\.]+)([^\\d].*)*$')", name='single-group versions rejected')

# ---- mutation screening passes 2/3 ------------------------------------------------------------------
mut('C10', 'grid', "    def version(self):  # pragma: no cover\n        # Trivial function\n        return self._version", "    def version(self):  # pragma: no cover\n        # Trivial function\n        return self.nearest_version", name='Grid.version returns the nearest version')
mut('C07', 'grid', "    def version(self):  # pragma: no cover\n        # Trivial function\n        return self._version", "    def version(self):  # pragma: no cover\n        # Trivial function\n        return self.nearest_version", name='Grid.version returns the nearest version')
mut('C03', 'zincparser', "    Bin(toks[1]) if toks[0] == 'Bin' else XStr(toks[0], toks[1])])", "    Bin(toks[1]) if toks[0] == 'Bi' else XStr(toks[0], toks[1])])", name='Bin head word misspelt in the action')
mut('C11', 'datatypes', "        return 'XStr(%r, %r)' % (self.encoding, self.data_to_string())", "        return 'XStr(%r, %r)' % (self.data, self.data_to_string())", name='XStr repr shows the payload as encoding')

# ---- round 6 ------------------------------------------------------------------------------------------
_REIDX = """        index = {}
        for item in self._row:
            if "id" in item:
                index[str(item["id"])] = item
        self._index = index"""
_REIDX_INPLACE = """        self._index = {}
        for item in self._row:
            if "id" in item:
                self._index[str(item["id"])] = item"""
mut('C13', 'grid', _REIDX, _REIDX_INPLACE, rule='C13.D5', name='id index emptied and refilled in place (visible half-built)')
mut('C15', 'grid', _REIDX, _REIDX_INPLACE, 'OK', name='(sequentially the same) id index refilled in place')
mut('C13', 'grid', _REIDX, """        self._index = {str(item["id"]): item for item in self._row if "id" in item}""", 'OK',
    name='id index built by one comprehension')
mut('C18', 'version', "        num2 += tuple([0 for n in range(len(num2), ver_len)])", "        num2 += tuple([0 for n in range(len(num1), ver_len)])",
    rule='C18.D2', name='right operand padded by the length of the left one')
_UNITS = "            if other.unit != self.unit:"
mut('C20', 'datatypes', _UNITS, "            if self.unit and other.unit and other.unit != self.unit:", name='unit-less quantity compares with any unit')
mut('C19', 'datatypes', _UNITS, "            if (other.unit or None) != (self.unit or None):", rule='C19.D1', name="units None and '' taken for the same unit")
mut('C20', 'datatypes', _UNITS, "            if not (other.unit == self.unit):", 'OK', name='unit test spelled with not ==')
mut('C19', 'datatypes', _UNITS, "            if not (other.unit == self.unit):", 'OK', name='unit test spelled with not ==')
_SDIDX = "    def index(self, *args, **kwargs):\n        return self._order.index(*args, **kwargs)"
mut('C16', 'sortabledict', _SDIDX, "    def index(self, key, default=None):\n        if key not in self._values:\n            return default\n        return self._order.index(key)",
    rule='C16.D5', name='index() answers a default for an absent key')
mut('C16', 'sortabledict', _SDIDX, "    def index(self, key):\n        if key not in self._values:\n            raise ValueError(key)\n        return self._order.index(key)",
    'OK', name='index() raises ValueError itself for an absent key')
_GLEN = "    def __len__(self):\n        '''\n        Return the number of rows in the grid.\n        '''"
mut('C14', 'grid', _GLEN, "    def pop(self, index=-1):\n        row = self[index]\n        self.remove(row)\n        return row\n\n" + _GLEN,
    rule='C14.D1', name='pop removes the first equal row')
mut('C14', 'grid', _GLEN, "    def pop(self, index=-1):\n        row = self[index]\n        del self[index]\n        return row\n\n" + _GLEN,
    'OK', name='pop spelled out as the mixin')
mut('C11', 'grid_filter', "        for i, path in enumerate(paths):\n            obj = obj[path]\n            if i != len(paths)-1 and isinstance(obj, Ref):",
    "        for path in paths:\n            obj = obj[path]\n            if path != paths[-1] and isinstance(obj, Ref):", rule='C11.D7',
    name='last hop recognised by its name')
_REFREPR = """        return '%s(%r, %r, %r)' % (
            self.__class__.__name__, self.name, self.value, self.has_value
        )"""
mut('C12', 'datatypes', _REFREPR, """        if self.has_value:
            return '%s(%r, "%s")' % (self.__class__.__name__, self.name, self.value)
        return '%s(%r)' % (self.__class__.__name__, self.name)""", rule='C12.D2', name='Ref repr quotes the display string by hand')
mut('C12', 'datatypes', _REFREPR, """        if self.has_value:
            return '%s(%r, %r)' % (self.__class__.__name__, self.name, self.value)
        return '%s(%r)' % (self.__class__.__name__, self.name)""", 'OK', name='Ref repr with two closed forms')
mut('C08', 'zincparser', "                    if uri and (esc_c == '#'):", "                    if uri and (esc_c in ':/?#[]@\\\\&=;'):", rule='C08.D1',
    name='reader keeps the backslash of every URI delimiter escape')
_DEC = """    if isinstance(decimal, float):
        # Non-finite values have their own spelling in ZINC
        if decimal != decimal:
            return 'NaN'
        elif decimal == float('inf'):
            return 'INF'
        elif decimal == -float('inf'):
            return '-INF'
    return str(decimal)"""
mut('C04', 'zincdumper', "def dump_decimal(decimal, version=LATEST_VER):\n" + _DEC,
    "NON_FINITE = {float('inf'): 'INF', float('-inf'): '-INF', float('nan'): 'NaN'}\n\n\ndef dump_decimal(decimal, version=LATEST_VER):\n"
    "    if isinstance(decimal, float) and decimal in NON_FINITE:\n        return NON_FINITE[decimal]\n    return str(decimal)",
    rule='C04.D1', name='NaN looked up in a table (nan is never `in` it)')
mut('C04', 'zincdumper', "def dump_decimal(decimal, version=LATEST_VER):\n" + _DEC,
    "NON_FINITE = {float('inf'): 'INF', float('-inf'): '-INF'}\n\n\ndef dump_decimal(decimal, version=LATEST_VER):\n"
    "    if isinstance(decimal, float):\n        if decimal != decimal:\n            return 'NaN'\n        if decimal in NON_FINITE:\n"
    "            return NON_FINITE[decimal]\n    return str(decimal)", 'OK', name='infinities looked up in a table, NaN tested first')
_HASV = "        self.has_value = has_value or (value is not None)"
for _p in ('C01', 'C02', 'C08', 'C07'):
    mut(_p, 'datatypes', _HASV, "        self.has_value = bool(has_value or value)", name='empty display string taken for none (Ref.__init__)')
    mut(_p, 'datatypes', _HASV, "        self.has_value = (value is not None) or has_value", 'OK', name='has_value with the operands swapped')
_JREF = "        if matched[-1] is not None:\n            return Ref(matched[0], matched[-1], has_value=True)"
for _p in ('C02', 'C08'):
    mut(_p, 'jsonparser', _JREF, "        if matched[-1]:\n            return Ref(matched[0], matched[-1], has_value=True)",
        name='JSON reference display decided by truthiness')
mut('C02', 'jsonparser', _JREF + "\n        else:\n            return Ref(matched[0])",
    "        if matched[-1] is None:\n            return Ref(matched[0])\n        else:\n            return Ref(matched[0], matched[-1], has_value=True)",
    'OK', name='JSON reference branches swapped under `is None`')
mut('C01', 'zincparser', "toks[1] if len(toks) > 1 else None)", "(toks[1] if len(toks) > 1 else None) or None)", name='ZINC reference display passed through `or`')
_ZEXC = "        except:  # pragma: no cover\n            # Unlikely to occur, might do though if Project Haystack changes"
mut('C03', 'zincparser', _ZEXC, _ZEXC.replace('except:', 'except KeyError:'), rule='C03.D5', name='zone look-up handler narrowed to KeyError')
mut('C03', 'zincparser', _ZEXC, _ZEXC.replace('except:', 'except Exception:'), 'OK', name='zone look-up handler spelled except Exception')
mut('C05', 'jsonparser', "            except:  # pragma: no cover\n                # Unlikely code path.", "            except KeyError:  # pragma: no cover\n                # Unlikely code path.",
    rule='C05.D4', name='JSON zone look-up handler narrowed to KeyError')
mut('C07', 'zincparser', "            return [isodt.astimezone(tz)]", "            return [tz.localize(isodt.replace(tzinfo=None))]", name='ZINC reader re-labels the wall clock')
mut('C09', 'zincparser', "[iso8601.parse_date(toks[0].upper())]", "[iso8601.parse_date(toks[0].upper(), default_timezone=None)]", rule='C09.D3',
    name='stamps parsed naive: the .localise branch becomes live')
_VG = "        version_given = version is not None"
mut('C09', 'grid', _VG, "        version_given = bool(version)", rule='C09.D4', name='empty nested version never reaches Version()')
mut('C09', 'grid', _VG + "\n        if version_given:\n            version = Version(version)\n        else:\n            version = VER_2_0",
    "        version_given = version is not None\n        if not version_given:\n            version = VER_2_0\n        else:\n            version = Version(version)",
    'OK', name='version conversion under the inverted test')
mut('C10', 'grid', "            result=Grid(version=self.version,metadata=self.metadata,columns=self.column)",
    "            result=Grid(version=self._version if self._version_given else None,metadata=self.metadata,columns=self.column)",
    rule='C10.D2', name='slice created with the version the parent was GIVEN')
mut('C12', 'grid_filter', "    return FilterAST(hs_filter.parseString(filter, parseAll=True)[0])",
    "    import warnings as _w\n    with _w.catch_warnings():\n        return FilterAST(hs_filter.parseString(filter, parseAll=True)[0])", name='(alias) warnings filter swapped while parsing', expect='V')
mut('C13', 'grid_filter', "    return _FnWrapper(fun_name, function_template)",
    "    w = _SEEN.get(repr(def_filter))\n    if w is None:\n        w = _SEEN[repr(def_filter)] = _FnWrapper(fun_name, function_template)\n    return w",
    rule='C13.D3', name='compiled filters shared through a store keyed by a rendering')

# ---- round 7 ------------------------------------------------------------------------------------------
mut('C01', 'zincparser', "hs_digits = Regex(r'[0-9_]+')", "hs_digits = Regex(r'[\\d_]+')", rule='C01.D2',
    name='number token accepts non-ASCII digits (unit start absorbed)')
mut('C03', 'zincparser', "hs_digits = Regex(r'[0-9_]+')", "hs_digits = Regex(r'[\\d_]+')", rule='C03.D1',
    name='number token accepts non-ASCII digits (unit start absorbed)')
_PDEC = "    if isinstance(grid_str, six.binary_type):\n        grid_str = grid_str.decode(encoding=charset)\n    _parse = functools.partial"
mut('C01', 'parser', "MODE_JSON = 'application/json'\n", "MODE_JSON = 'application/json'\n\n\ndef _decode(data, charset):\n    if isinstance(data, six.binary_type):\n        data = data.decode(encoding=charset)\n    if isinstance(data, six.string_types):\n        import unicodedata\n        data = unicodedata.normalize('NFC', data)\n    return data\n", 'OK',
    name='(unused) normalising helper defined but not called')
_JMETA = "    metadata = {}\n    for name, value in meta.items():\n        metadata[name] = parse_embedded_scalar(value, version=version)"
mut('C02', 'jsonparser', _JMETA, "    metadata = {name: parse_embedded_scalar(meta[name], version=version) for name in meta.keys() - set(())}",
    rule='C02.D6', name='grid metadata built by walking a set of keys')
mut('C02', 'jsonparser', _JMETA, "    metadata = {name: parse_embedded_scalar(value, version=version) for name, value in meta.items()}", 'OK',
    name='grid metadata built by a dict comprehension over items()')
mut('C04', 'zincdumper', "    uri_value = URI_META.sub(uri_sub, uri_value)\n", "    uri_value = URI_META.sub(uri_sub, uri_value)\n    for orig, esc in STR_SUB:\n        uri_value = uri_value.replace(orig, esc)\n",
    rule='C04.D1', name='URIs get the string-only short escapes')
_ZQ = "        return '%s%s' % (dump_decimal(quantity.value),\n                         quantity.unit)"
mut('C04', 'zincdumper', "    if (quantity.unit is None) or (quantity.unit == ''):\n        return dump_decimal(quantity.value, version=version)\n    else:\n" + _ZQ,
    "    unit = quantity.unit\n    if (unit is None) or (unit == ''):\n        unit = ''\n    return '%s%s' % (quantity.value, unit)",
    rule='C04.D1', name='unit-less quantity bypasses dump_decimal (inf/nan spelled as str())')
mut('C06', 'dumper', "    # Sanitise mode\n    mode = _parse_mode(mode)\n\n    if isinstance(grids, Grid):", "    if isinstance(grids, Grid):", rule='C06.D1',
    name="dump() frames on the raw mode argument ('json')")
mut('C06', 'dumper', "    # Sanitise mode\n    mode = _parse_mode(mode)\n\n    if isinstance(grids, Grid):", "    mode = _parse_mode(mode)\n    if isinstance(grids, Grid):", 'OK',
    name='mode sanitised without the comment')
_JDT = "    tz_name = timezone_name(date_time, version=version)\n    return 't:%s %s'"
for _p in ('C07', 'C17', 'C02'):
    mut(_p, 'jsondumper', _JDT, "    if date_time.utcoffset() == datetime.timedelta(0):\n        tz_name = 'UTC'\n    else:\n        tz_name = timezone_name(date_time, version=version)\n    return 't:%s %s'",
        name="JSON writer labels every zero-offset stamp 'UTC'")
mut('C07', 'zincdumper', "def dump_str(str_value, version=LATEST_VER):", "from functools import lru_cache\n\n\n@lru_cache(maxsize=4096)\ndef dump_str(str_value, version=LATEST_VER):",
    rule='C07.D2', name='dump_str memoised (Bin is unhashable)')
mut('C08', 'zincdumper', "    str_value = STR_META.sub(str_sub, str_value)", "    str_value = STR_META.sub(str_sub, str_value, re.UNICODE)", rule='C08.D1',
    name='flag passed where sub() takes the replacement count')
mut('C08', 'zincdumper', "    str_value = STR_META.sub(str_sub, str_value)", "    str_value = STR_META.sub(str_sub, str_value, count=0)", 'OK',
    name='count=0 spelled out')
_JREFW = "    if ref.has_value:\n        return u'r:%s %s' % (ref.name, ref.value)\n    else:\n        return u'r:%s' % ref.name"
mut('C08', 'jsondumper', _JREFW, "    ref_str = u'r:%s'\n    if ref.has_value:\n        ref_str += u' ' + ref.value\n    return ref_str % ref.name", rule='C08.D2',
    name='display name concatenated into the format string')
mut('C09', 'zincparser', 'hs_strChar = Regex(r"([^\\x00-\\x1f\\\\\\\"]|\\\\[bfnrt\\\\\\\"$]|\\\\[uU][0-9a-fA-F]{4})")',
    'hs_strChar = Regex(r"([^\\x00-\\x1f\\\\\\\"]|\\\\[bfnrt\\\\\\\"$]|\\\\u[0-9a-f]{4})", re.IGNORECASE)', rule='C09.D4',
    name='IGNORECASE over the whole escape regex (\\B \\T accepted)')
mut('C10', 'jsonparser', "    if scalar is None:\n        return None\n", "    if not scalar:\n        return scalar\n", rule='C10.D1',
    name='falsy fast path returns [] / {} before the version gate')
mut('C11', 'grid_filter', '    function_template = "def %s(_grid, _entity):\n  return " % fun_name + "".join(def_filter)'.replace('\n', '\\n'),
    '    function_template = ("def %s(_grid, _entity):\n  return " + "".join(def_filter)) % fun_name'.replace('\n', '\\n'), rule='C11.D5',
    name='generated source used as a %-format template')
mut('C12', 'grid_filter', "hs_id = Regex(r'[a-z][a-zA-Z0-9_]*')", "hs_id = pyparsing_common.identifier", rule='C12.D1',
    name='tag names by pyparsing_common.identifier')
mut('C14', 'grid', "        if not isinstance(value, dict):\n            raise TypeError('value must be a dict')\n        for val in value.values():\n            self._detect_or_validate(val)\n        self._row[index] = value",
    "        if isinstance(index, numbers.Number) and not -len(self._row) < index < len(self._row):\n            raise IndexError('row index out of range')\n        if not isinstance(value, dict):\n            raise TypeError('value must be a dict')\n        for val in value.values():\n            self._detect_or_validate(val)\n        self._row[index] = value",
    rule='C14.D1', name='explicit index test excludes -len')
mut('C14', 'grid', "        if not isinstance(value, dict):\n            raise TypeError('value must be a dict')\n        for val in value.values():\n            self._detect_or_validate(val)\n        self._row[index] = value",
    "        if isinstance(index, numbers.Number) and not -len(self._row) <= index < len(self._row):\n            raise IndexError('row index out of range')\n        if not isinstance(value, dict):\n            raise TypeError('value must be a dict')\n        for val in value.values():\n            self._detect_or_validate(val)\n        self._row[index] = value",
    'OK', name='explicit index test equal to the list rule')
mut('C17', 'zincparser', "    elif bool(tzname):\n        try:", "    elif bool(tzname) and isodt.utcoffset():\n        try:", rule='C17.D2',
    name='zone conversion skipped when the offset is zero (falsy timedelta)')
mut('C18', 'version', "        return hash((nums, self.version_extra))", "        return hash(('.'.join(str(p) for p in nums).rstrip('.0'), self.version_extra))", rule='C18.D2',
    name="rstrip('.0') on the version text")
_FLB = "        elif isinstance(v1, bool) or isinstance(v2, bool):\n            # a boolean is not a number\n            return isinstance(v1, bool) and isinstance(v2, bool) and v1 == v2\n"
mut('C19', 'grid', _FLB + "        elif isinstance(v1, float) or isinstance(v2, float):", "        elif isinstance(v1, float) or isinstance(v2, float):", 'V',
    name='boolean branch removed')
mut('C20', 'datatypes', "        return pow(self.value, other, modulo)", "        return self.value.__pow__(other, modulo)", rule='C20.D1',
    name='dunder of the value called directly')
mut('C20', 'datatypes', "        if isinstance(other, Qty):\n            if other.unit != self.unit:", "        if type(other) in (int, float):\n            return op(self.value, other)\n        if isinstance(other, Qty):\n            if other.unit != self.unit:",
    rule='C20.D1', name='plain numbers selected by exact type (bool excluded)')
mut('C12', 'datatypes', "        self.encoding = encoding\n", "        try:\n            import codecs\n            encoding = {'hex': 'hex', 'base64': 'b64'}.get(codecs.lookup(encoding).name, encoding)\n        except LookupError:\n            pass\n        self.encoding = encoding\n",
    name='codec looked up by the literal type name (imports encodings.*)')

# ---- round 8 ------------------------------------------------------------------------------------------
mut('C12', 'grid_filter', "hs_digit = Regex(r'[0-9]')", "hs_digit = Regex(r'\\d')", rule='C12.D1', name='digits of reference names by \\d (non-ASCII digits)')
mut('C09', 'zincparser', "hs_digit = Regex(r'[0-9]')", "hs_digit = Regex(r'\\d')", rule='C09.D4', name='digits of reference names by \\d (non-ASCII digits)')
_ZPT = """    time_str = toks[0]
    time_fmt = '%H:%M:%S'
    if '.' in time_str:
        time_fmt += '.%f'
        # %f takes at most six digits; ZINC allows more (nanoseconds)
        (whole, frac) = time_str.split('.', 1)
        time_str = whole + '.' + frac[:6]
    return [datetime.datetime.strptime(time_str, time_fmt).time()]"""
mut('C03', 'zincparser', _ZPT, """    (whole, _, frac) = toks[0].partition('.')
    (hour, minute, second) = [int(part) for part in whole.split(':')]
    usec = int(float('0.' + frac) * 1000000) if frac else 0
    return [datetime.time(hour, minute, second, usec)]""", rule='C03.D1', name='time fraction through float()')
mut('C03', 'zincparser', _ZPT, """    (whole, _, frac) = toks[0].partition('.')
    (hour, minute, second) = [int(part) for part in whole.split(':')]
    usec = int(frac[:6].ljust(6, '0')) if frac else 0
    return [datetime.time(hour, minute, second, usec)]""", 'OK', name='time fraction padded as text')
mut('C03', 'zincparser', _ZPT, """    (whole, _, frac) = toks[0].partition('.')
    (hour, minute, second) = [int(part) for part in whole.split(':')]
    usec = int(frac[:6] or 0)
    return [datetime.time(hour, minute, second, usec)]""", rule='C03.D1', name='time fraction read as a microsecond count')
mut('C03', 'zincparser', "        time_str = whole + '.' + frac[:6]", "        time_str = whole + '.' + frac[:7]", rule='C03.D1',
    name='seven fraction digits handed to %f')
mut('C05', 'jsonparser', "                tz = timezone(tzname)\n                return isodate.astimezone(tz)\n            except:  # pragma: no cover\n                # Unlikely code path.\n                return isodate",
    "                tz = timezone(tzname)\n            except ValueError:  # pragma: no cover\n                # Unlikely code path.\n                return isodate\n            return isodate.astimezone(tz)",
    rule='C05.D4', name='astimezone outside the handler (OverflowError at the ends of the calendar)')
mut('C05', 'parser', "    _parse = functools.partial(parse_grid, mode=mode,", "    if isinstance(grid_str, six.text_type):\n        grid_str = grid_str.replace(u'\\ufeff', u'')\n    _parse = functools.partial(parse_grid, mode=mode,",
    rule='C05.D2', name='BOM removed everywhere in the document')
mut('C04', 'datatypes', "STR_SUB = [\n    ('\\b', '\\\\b'),\n    ('\\f', '\\\\f'),", "STR_SUB = [\n    ('\\b', '\\\\x08'),\n    ('\\f', '\\\\x0c'),", rule='C04.D1',
    name='backspace / form feed escaped as \\x..')
mut('C06', 'jsondumper', "    return u'b:%s' % bin_value", "    if Version.nearest(version) < VER_3_0:\n        return u'b:%s' % bin_value\n    return dump_xstr(XStr('Bin', bin_value), version=version)",
    rule='C06.D2', name='3.0 Bin written as x:Bin:...')
mut('C10', 'sortabledict', "    def __repr__(self):", "    def __getstate__(self):\n        state = self.__dict__.copy()\n        state['_validate_fn'] = None\n        return state\n\n    def __repr__(self):",
    rule='C10.D2', name='copy/pickle hook drops the validator')
mut('C11', 'grid_filter', "    except (KeyError, TypeError, IndexError):", "    except (KeyError, IndexError):", rule='C11.D4', name='TypeError of a walk through a plain value not caught')
mut('C12', 'grid_filter', "    lambda toks: [XStr(toks[0], toks[1])]", "    lambda toks: [getattr(datatypes_mod, toks[0], XStr)(toks[0], toks[1])]".replace('datatypes_mod', 'threading'), rule='C12.D4',
    name='callable looked up by the type name of the literal')
mut('C12', 'grid_filter', "hs_refChar = hs_alpha | hs_digit | Word('_:-.~', exact=1)", "hs_refChar = Regex(r'[A-z0-9_:.~-]')", rule='C12.D1',
    name='reference characters by the range A-z')
mut('C16', 'sortabledict', "        if key in self._values:\n            if not replace:", "        current = self._values.get(key)\n        if current is not None:\n            if not replace:", rule='C16.D2',
    name='existence decided by the value not being None')
mut('C18', 'version', "    def __eq__(self, other):\n        return self._cmp(other) == 0", "    def __eq__(self, other):\n        if isinstance(other, str):\n            return str(self) == other\n        return self._cmp(other) == 0",
    rule='C18.D1', name='== against a string compares the text')
mut('C19', 'datatypes', "        return (self.name == other.name) and \\\n               (self.has_value == other.has_value) and \\\n               (self.value == other.value)",
    "        if (self.name != other.name) or (self.has_value != other.has_value):\n            return False\n        return (not self.has_value) or (self.value == other.value)", 'OK',
    name='(alone harmless) Ref.__eq__ ignores the value of references without display string')
mut('C20', 'datatypes', "class Quantity(six.with_metaclass(ABCMeta, object)):", "import numbers as _numbers\n\n\nclass Quantity(six.with_metaclass(ABCMeta, object)):", 'OK', name='unused import')
mut('C20', 'datatypes', "        return other - self.value", "        return -self.__sub__(other)", rule='C20.D1', name='reflected minus through the forward operator (sign of zero)')
mut('C07', 'zincdumper', "    return str(decimal)\n", "    text = str(decimal)\n    if '.' in text:\n        text = text.rstrip('0').rstrip('.')\n    return text\n", rule='C07.D3',
    name='zeros trimmed from a number text that may carry an exponent')
mut('C07', 'zincdumper', "    return str(decimal)\n", "    text = str(decimal)\n    if '.' in text and 'e' not in text:\n        text = text.rstrip('0').rstrip('.')\n    return text\n", 'OK',
    name='zeros trimmed, exponent form excluded')
mut('C08', 'jsonparser', "        return XStr(*scalar[2:].split(':', 1))", "        return XStr(*re.match(r'x:(.+):(.*)$', scalar, re.DOTALL).groups())", 'V',
    name='XStr cut by an inline greedy regex')
mut('C08', 'zincdumper', "CTRL_META = re.compile(r'([\\x00-\\x1f])')", "CTRL_META = re.compile(r'([\\x00-\\x1e])')", rule='C08.D1', name='U+001F left out of the control class')
mut('C14', 'grid', "        self._row[index] = value\n", "        if self._row[index] != value:\n            self._row[index] = value\n", rule='C14.D1', name='store skipped for an equal row')
mut('C17', 'zoneinfo', "    raise ValueError('Unable to get timezone of %r' % dt)", "    raise ValueError('Unable to get timezone of %r (%s)' % (dt, dt.tzname()))", rule='C17.D3',
    name='error message calls the optional tzname()')


# ---- round 9 ---------------------------------------------------------------------------
_R9_NEAREST_HEAD = """    @classmethod
    def nearest(self, ver):
        \"\"\"
        Retrieve the official version nearest the one given.
        \"\"\"
        if not isinstance(ver, Version):
            ver = Version(ver)
"""
_R9_NEAREST_OLD = """        if not isinstance(ver, Version):
            ver = Version(ver)

        if ver in OFFICIAL_VERSIONS:
            return ver
"""
for _p, _r in (('C18', 'C18.D4'), ('C10', 'C10.D1'), ('C02', 'C02.D4'), ('C07', 'C07.D1')):
    mut(_p, 'version', _R9_NEAREST_HEAD, "    _seen = {}\n\n" + _R9_NEAREST_HEAD + """        if ver.version_nums in self._seen:
            return self._seen[ver.version_nums]
        self._seen[ver.version_nums] = ver if ver in OFFICIAL_VERSIONS else VER_3_0
""", rule=_r, name='nearest() memo keyed by the numeric groups')
mut('C18', 'version', _R9_NEAREST_OLD, """        if not isinstance(ver, Version):
            ver = Version(ver)
        self._last_for = ver
        self._last_is = None
        if ver in OFFICIAL_VERSIONS:
            return ver
""", rule='C18.D4', name='nearest() memo in two class attributes')
mut('C18', 'version', "        elif self.version_extra < other.version_extra:\n            return -1",
    "        elif self.version_extra.lower() < other.version_extra.lower():\n            return -1", name='suffix order by lower-cased text')
for _p, _r in (('C17', 'C17.D1'), ('C05', 'C05.D4'), ('C03', 'C03.D5')):
    mut(_p, 'zoneinfo', "        _TZ_RMAP = dict([(z,n) for (n,z) in list(_TZ_MAP.items())])",
        "        _TZ_RMAP = dict([(z,n) for (n,z) in list(_TZ_MAP.items())])\n        _TZ_RMAP['Etc/UTC'] = 'UTC'", rule=_r,
        name='zone table changed in place after it was bound')
for _p, _r in (('C06', 'C06.D4'), ('C02', 'C02.D7'), ('C07', 'C07.D1')):
    mut(_p, 'jsondumper', "    tz_name = timezone_name(date_time, version=version)\n    return 't:%s %s' % (date_time.isoformat(), tz_name)",
        "    if date_time in _SEEN:\n        return _SEEN[date_time]\n    tz_name = timezone_name(date_time, version=version)\n    _SEEN[date_time] = 't:%s %s' % (date_time.isoformat(), tz_name)\n    return _SEEN[date_time]\n\n\n_SEEN = {}",
        rule=_r, name='JSON date-time text remembered per value')
mut('C06', 'dumper', "    _dump = functools.partial(dump_grid, mode=mode)", "    if not all(grids):\n        raise ValueError('empty grid')\n    _dump = functools.partial(dump_grid, mode=mode)",
    rule='C06.D1', name='dump() walks its argument twice')
mut('C06', 'dumper', "    _dump = functools.partial(dump_grid, mode=mode)", "    grids = list(grids)\n    if not all(grids):\n        raise ValueError('empty grid')\n    _dump = functools.partial(dump_grid, mode=mode)",
    'OK', name='dump() materialises its argument first')
mut('C11', 'grid_filter', 'Suppress(Keyword("not"))', 'Suppress(Literal("not"))', rule='C11.D1', name='not without word boundary')
mut('C11', 'grid_filter', 'ZeroOrMore(Keyword("and") + hs_term)', 'ZeroOrMore(Literal("and") + hs_term)', rule='C11.D1', name='and without word boundary')
mut('C12', 'grid_filter', '"def %s(_grid, _entity):\\n  return " % fun_name + "".join(def_filter)',
    '"def %s(_grid, _entity):\\n  # %s\\n  return " % (fun_name, filter.strip()) + "".join(def_filter)', rule='C12.D3',
    name='stripped filter text in the exec template')
mut('C19', 'datatypes', "return self._cmp_op(other, lambda x, y: x != y)", "return self._cmp_op(other, lambda x, y: x != y and not (x != x and y != y))",
    rule='C19.D1', name='NaN-aware != next to a plain ==')
mut('C10', 'grid', "                mo = MetadataObject(validate_fn=self._detect_or_validate)\n                mo.extend(col_meta)\n                self.column.add_item(col_id, mo)",
    "                mo = MetadataObject(validate_fn=self._detect_or_validate)\n                mo.extend(col_meta)\n                self.column.add_item(col_id, mo if not isinstance(col_meta, MetadataObject) else col_meta)",
    rule='C10.D2', name='constructor keeps a caller-owned column object')
