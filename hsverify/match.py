"""Robust matching of expected statement forms against the code.

A fact of the form "the function contains the statement S" is decided three ways:
  same      a statement equal to S up to consistent renaming of local variables     -> holds
  leaf      a statement with the same AST *shape* as S that differs in a leaf
            (constant, operator, attribute/global name, index)                       -> a local deviation:
                                                                                        reported as a violation
  none      nothing of that shape (restructured code)                                -> cannot decide:
                                                                                        ANALYSIS-ERROR, never an alarm
so re-formatting, renaming and re-ordering of independent statements do not fire, while the local
edits a defect consists of do."""
from __future__ import annotations

import ast

from .model import norm, walk_no_nested


def local_names(fn):
    names = set()
    if isinstance(fn, (ast.FunctionDef, ast.Lambda)):
        a = fn.args
        for x in list(a.args) + list(a.kwonlyargs) + ([a.vararg] if a.vararg else []) + ([a.kwarg] if a.kwarg else []):
            names.add(x.arg)
    for n in ast.walk(fn):
        if isinstance(n, ast.Name) and isinstance(n.ctx, (ast.Store, ast.Del)):
            names.add(n.id)
        elif isinstance(n, ast.arg):
            names.add(n.arg)
        elif isinstance(n, ast.ExceptHandler) and n.name:
            names.add(n.name)
    return names


class _Renamer(ast.NodeTransformer):
    def __init__(self, locals_):
        self.locals = locals_
        self.map = {}

    def _get(self, name):
        if name not in self.map:
            self.map[name] = 'v%d' % len(self.map)
        return self.map[name]

    def visit_Name(self, node):
        if self.locals is None or node.id in self.locals:
            return ast.copy_location(ast.Name(id=self._get(node.id), ctx=node.ctx), node)
        return node

    def visit_arg(self, node):
        if self.locals is None or node.arg in self.locals:
            return ast.copy_location(ast.arg(arg=self._get(node.arg), annotation=None), node)
        return node


def canon(node, locals_):
    import copy
    n = copy.deepcopy(node)
    n = _Renamer(locals_).visit(n)
    return ast.dump(n, annotate_fields=False, include_attributes=False)


def shape(node):
    """AST shape: node types only (operators are leaves too)."""
    if isinstance(node, ast.AST):
        if isinstance(node, (ast.operator, ast.cmpop, ast.unaryop, ast.boolop, ast.expr_context)):
            return '_'
        kids = []
        for f, v in ast.iter_fields(node):
            if isinstance(v, list):
                kids.append(tuple(shape(x) for x in v))
            elif isinstance(v, ast.AST):
                kids.append(shape(v))
        return (type(node).__name__, tuple(kids))
    return '_'


def parse_stmt(src):
    from .model import canonicalise
    tree = canonicalise(ast.parse(src))
    return tree.body[0]


def parse_expr(src):
    return ast.parse(src, mode='eval').body


import builtins as _b

BUILTINS = set(dir(_b))


_CAND_CACHE = {}


def _header(node):
    """a For statement is compared by its header only"""
    if isinstance(node, ast.For):
        h = ast.For(target=node.target, iter=node.iter, body=[], orelse=[], type_comment=None)
        return ast.copy_location(h, node)
    return node


def _candidates(fns, kinds):
    key = (tuple(id(f_) for f_ in fns), kinds)
    if key not in _CAND_CACHE:
        locs = set()
        for f_ in fns:
            locs |= local_names(f_)
        out = []
        for f_ in fns:
            for n in walk_no_nested(f_):
                if isinstance(n, kinds) and n is not f_:
                    h = _header(n)
                    out.append((n, type(n), canon(h, _names_of(h, locs)), shape(h)))
        _CAND_CACHE[key] = out
    return _CAND_CACHE[key]


def find(fn, expected_srcs, kinds=(ast.stmt,), globals_=()):
    """Look for one of the expected statements inside `fn` (a function or a list of functions).
    Names of the expected text that are neither module globals nor builtins are treated as locals
    (matched up to consistent renaming).  A `for` statement is matched by its header.
    Returns ('same', node, src) | ('leaf', node, src) | ('none', None, None)."""
    fns = list(fn) if isinstance(fn, (list, tuple)) else [fn]
    g = set(globals_) | BUILTINS
    cands = _candidates(fns, kinds)
    exps = []
    for src in expected_srcs:
        e = _header(parse_stmt(src))
        elocs = {n.id for n in ast.walk(e) if isinstance(n, ast.Name) and n.id not in g} | {
            n.arg for n in ast.walk(e) if isinstance(n, ast.arg)}
        exps.append((src, e, canon(e, elocs), shape(e)))
    for src, e, ec, es in exps:
        for c, ct, cc, cs in cands:
            if ct is type(e) and cc == ec:
                return ('same', c, src)
    for src, e, ec, es in exps:
        for c, ct, cc, cs in cands:
            if ct is type(e) and cs == es:
                return ('leaf', c, src)
    return ('none', None, None)


def _names_of(node, locs):
    """local names occurring in node (what gets alpha-renamed): locals of the function plus names the
    statement itself binds"""
    out = set()
    for n in ast.walk(node):
        if isinstance(n, ast.Name) and (n.id in locs or isinstance(n.ctx, ast.Store)):
            out.add(n.id)
        elif isinstance(n, ast.arg):
            out.add(n.arg)
    return out


def same_expr(node, expected_src, locs):
    e = parse_expr(expected_src)
    return canon(node, _names_of(node, locs)) == canon(e, _names_of(e, locs | {n.id for n in ast.walk(e) if isinstance(n, ast.Name)}))


def fact(ctx, rule, fn, expected_srcs, what, witness, file, construct, kinds=(ast.stmt,), engine='E9', globals_=()):
    """Record the three-way outcome of a statement fact."""
    st, node, src = find(fn, expected_srcs, kinds, globals_)
    if st == 'same':
        ctx.ob(rule, what, True, '%s:%d' % (file, node.lineno))
        return True
    if st == 'leaf':
        ctx.violation(rule, construct, norm(node).split('\n')[0], witness,
                      '%s: found `%s` where `%s` is required' % (what, norm(node).split('\n')[0][:120], src.split('\n')[0][:120]),
                      file=file, line=node.lineno, engine=engine)
        return False
    ctx.error(rule, '%s: no statement of the form `%s` in %s (restructured code; cannot decide)' % (
        what, expected_srcs[0].split('\n')[0][:100],
        ', '.join(getattr(f_, 'name', '?') for f_ in (fn if isinstance(fn, (list, tuple)) else [fn]))))
    return None


def with_local_callees(model, modname, fn, depth=2):
    """fn plus the module-local functions it calls (delegation to helpers is followed)."""
    out = [fn]
    seen = {fn.name}
    frontier = [fn]
    for _ in range(depth):
        nxt = []
        for f_ in frontier:
            for n in walk_no_nested(f_):
                if isinstance(n, ast.Call):
                    name = None
                    if isinstance(n.func, ast.Name):
                        name = n.func.id
                    elif isinstance(n.func, ast.Attribute) and isinstance(n.func.value, ast.Name) and n.func.value.id == 'self':
                        name = n.func.attr
                    if name and name not in seen:
                        try:
                            owner = getattr(fn, '_parent', None)
                            if isinstance(n.func, ast.Attribute) and isinstance(owner, ast.ClassDef):
                                cal = model.func(modname, '%s.%s' % (owner.name, name))
                            else:
                                cal = model.func(modname, name)
                        except Exception:
                            continue
                        if isinstance(cal, ast.FunctionDef):
                            seen.add(name)
                            out.append(cal)
                            nxt.append(cal)
        frontier = nxt
    return out


# ----------------------------------------------------------------------------------
# role-based matching: expected statements with placeholders `_R_<role>` that unify with local
# variable names; bindings persist across the facts of one script, so renaming a local does not
# matter while `meta` and `col` can still be told apart
# ----------------------------------------------------------------------------------

SIMPLE = (ast.Assign, ast.AugAssign, ast.Expr, ast.Return, ast.Delete, ast.Raise, ast.For)


def _unify(p, c, bind, diffs):
    """structural comparison of pattern node p with candidate c; role names unify.
    Returns False on a shape mismatch; leaf mismatches are appended to diffs."""
    if isinstance(p, ast.Name):
        if p.id.startswith('_R_'):
            role = p.id[3:]
            if not isinstance(c, ast.Name):
                if isinstance(c, ast.Constant) or (isinstance(c, (ast.Dict, ast.List, ast.Tuple)) and not (
                        getattr(c, 'keys', None) or getattr(c, 'elts', None))):
                    diffs.append(('value of %s' % role, role, norm(c)))
                    return True
                return False
            if role in bind:
                al = bind.get('__alias__', {})
                if bind[role] != c.id and al.get(bind[role], bind[role]) != al.get(c.id, c.id):
                    diffs.append(('role %s' % role, bind[role], c.id))
            else:
                bind[role] = c.id
            return True
        if isinstance(c, ast.Name):
            if c.id != p.id:
                diffs.append(('name', p.id, c.id))
            return True
        if isinstance(c, (ast.Constant, ast.Dict, ast.List)) and not getattr(c, 'keys', None) and not getattr(c, 'elts', None):
            diffs.append(('name', p.id, norm(c)))
            return True
        return False
    if isinstance(p, ast.arg):
        if not isinstance(c, ast.arg):
            return False
        if p.arg.startswith('_R_'):
            role = p.arg[3:]
            if role in bind and bind[role] != c.arg:
                diffs.append(('role %s' % role, bind[role], c.arg))
            else:
                bind[role] = c.arg
        elif p.arg != c.arg:
            diffs.append(('parameter', p.arg, c.arg))
        return True
    if isinstance(p, ast.Constant):
        if isinstance(c, ast.Constant):
            if p.value != c.value or type(p.value) is not type(c.value):
                diffs.append(('constant', p.value, c.value))
            return True
        if isinstance(c, ast.Name):
            diffs.append(('constant', p.value, c.id))
            return True
        return False
    if isinstance(c, ast.Call) and isinstance(c.func, ast.Name) and len(c.args) == 1 \
            and not c.keywords and c.func.id in ('sorted', 'reversed', 'set', 'frozenset', 'list', 'tuple', 'iter') \
            and not (isinstance(p, ast.Call) and isinstance(p.func, ast.Name) and p.func.id == c.func.id):
        if _unify(p, c.args[0], bind, diffs):
            if c.func.id not in ('list', 'tuple', 'iter'):
                diffs.append(('wrapper', 'plain iteration', c.func.id + '(...)'))
            return True
        return False
    if type(p) is not type(c):
        # operators are leaves
        if isinstance(p, (ast.operator, ast.cmpop, ast.unaryop, ast.boolop)) and isinstance(
                c, (ast.operator, ast.cmpop, ast.unaryop, ast.boolop)):
            diffs.append(('operator', type(p).__name__, type(c).__name__))
            return True
        return False
    if isinstance(p, ast.expr_context):
        return True
    for f, pv in ast.iter_fields(p):
        cv = getattr(c, f, None)
        if f in ('lineno', 'col_offset', 'end_lineno', 'end_col_offset', 'type_comment', 'kind'):
            continue
        if isinstance(p, ast.For) and f in ('body', 'orelse'):
            continue
        if isinstance(pv, list):
            if not isinstance(cv, list) or len(pv) != len(cv):
                return False
            for a, b in zip(pv, cv):
                if isinstance(a, ast.AST):
                    if not _unify(a, b, bind, diffs):
                        return False
                elif a != b:
                    diffs.append(('field %s' % f, a, b))
        elif isinstance(pv, ast.AST):
            if not isinstance(cv, ast.AST) or not _unify(pv, cv, bind, diffs):
                return False
        else:
            if pv != cv:
                if f in ('attr', 'arg', 'id'):
                    diffs.append((f, pv, cv))
                else:
                    diffs.append(('field %s' % f, pv, cv))
    return True


class Script(object):
    """A sequence of expected statements over role variables, matched against one or several functions."""

    def __init__(self, ctx, rule, fns, file, construct, engine='E9'):
        self.ctx = ctx
        self.rule = rule
        self.fns = list(fns) if isinstance(fns, (list, tuple)) else [fns]
        self.file = file
        self.construct = construct
        self.engine = engine
        self.bind = {}
        self.cands = []
        for f_ in self.fns:
            for n in walk_no_nested(f_):
                if isinstance(n, SIMPLE) and n is not f_:
                    self.cands.append(n)
        # plain aliases `a = b` make two local names one role
        root = {}

        def find_root(x):
            while root.get(x, x) != x:
                x = root[x]
            return x
        for n in self.cands:
            if isinstance(n, ast.Assign) and len(n.targets) == 1 and isinstance(n.targets[0], ast.Name) \
                    and isinstance(n.value, ast.Name):
                a, b = find_root(n.targets[0].id), find_root(n.value.id)
                if a != b:
                    root[a] = b
        self.bind['__alias__'] = {k: find_root(k) for k in list(root)}

    def seed(self, role, name):
        self.bind[role] = name

    def need(self, patterns, what, witness, optional=False, bad=()):
        """patterns: alternative source texts with `_R_role` placeholders.
        bad: recognisably wrong forms (same placeholder syntax): an exact match of one is a violation."""
        best_leaf = None
        for src in bad:
            p = parse_stmt(src)
            for c in self.cands:
                if type(c) is not type(p):
                    continue
                b = dict(self.bind)
                diffs = []
                if _unify(p, c, b, diffs) and not diffs:
                    self.ctx.violation(self.rule, self.construct, norm(c).split('\n')[0], witness,
                                       '%s: found the wrong form `%s`' % (what, norm(c).split('\n')[0][:120]),
                                       file=self.file, line=c.lineno, engine=self.engine)
                    return None
        for src in patterns:
            p = parse_stmt(src)
            for c in self.cands:
                if type(c) is not type(p):
                    continue
                b = dict(self.bind)
                diffs = []
                if not _unify(p, c, b, diffs):
                    continue
                if not diffs:
                    self.bind = b
                    self.ctx.ob(self.rule, what, True, '%s:%d' % (self.file, c.lineno))
                    return c
                # prefer the candidate with the fewest leaf differences and consistent roles
                score = (sum(1 for d in diffs if d[0].startswith('role')), len(diffs))
                if best_leaf is None or score < best_leaf[0]:
                    best_leaf = (score, c, src, diffs, b)
        if optional:
            return None
        if best_leaf is not None and best_leaf[0][0] == 0 and best_leaf[0][1] <= 2:
            _, c, src, diffs, b = best_leaf
            shown = src.replace('_R_', '')
            d = diffs[0]
            self.ctx.violation(self.rule, self.construct, norm(c).split('\n')[0], witness,
                               '%s: found `%s` where `%s` is required (%s %r instead of %r)' % (
                                   what, norm(c).split('\n')[0][:110], shown.split('\n')[0][:110], d[0], d[2], d[1]),
                               file=self.file, line=c.lineno, engine=self.engine)
            return None
        shown = patterns[0].replace('_R_', '')
        self.ctx.error(self.rule, '%s: no statement of the form `%s` in %s (restructured code; cannot decide)' % (
            what, shown.split('\n')[0][:100], ', '.join(getattr(f_, 'name', '?') for f_ in self.fns)))
        return None
