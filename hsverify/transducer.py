"""E5 -- character homomorphisms of the ZINC writer (escape pipelines) and the reader's
unescape transducer, both extracted from the AST, composed and compared symbolically.

A writer pipeline is a sequence of phases, each a *character homomorphism*:
  re.sub(<single-char-class>, fn, s)      fn abstractly interpreted on a partition of its class
  s.replace(c, esc) for (c, esc) in TABLE  (single-character keys only)
Composition of char homomorphisms is a char homomorphism, so the whole pipeline is described by
a finite partition of 0..0x10FFFF with one output *template* per class:
  ('lit', ch) | ('ident',) | ('hex', width, zero_pad, upper)   -- relative to the input char c
"""
from __future__ import annotations

import ast
import re

from . import lang as L
from .lang import Unsupported
from .model import AnalysisError, Opaque, RegexConst, body_wo_doc, norm

HEXSET = L.iv((48, 57), (97, 102))
HEXSET_UP = L.iv((48, 57), (65, 70))
FMT_RE = re.compile(r'%(?P<flags>[-#0 +]*)(?P<width>\d+)?(?:\.(?P<prec>\d+))?(?P<conv>[sdxXrc%])')


class Phase(object):
    def __init__(self, kind, desc, node):
        self.kind = kind          # 'sub' | 'replace'
        self.desc = desc
        self.node = node
        self.cases = []           # list of (IntervalSet, template|None)  (None = character deleted)

    def lookup(self, cp):
        for ivs, tmpl in self.cases:
            if L.iv_contains(ivs, cp):
                return tmpl
        return [('ident',)]

    def domain(self):
        out = ()
        for ivs, _ in self.cases:
            out = L.iv_union(out, ivs)
        return out


def _fmt_template(fmt, arg_kind, where):
    """'\\\\u%04x' % o  -> template items; arg_kind 'o' (ord) or 'c' (the char)."""
    items = []
    pos = 0
    n_conv = 0
    for mt in FMT_RE.finditer(fmt):
        for ch in fmt[pos:mt.start()]:
            items.append(('lit', ch))
        pos = mt.end()
        conv = mt.group('conv')
        if conv == '%':
            items.append(('lit', '%'))
            continue
        n_conv += 1
        if arg_kind == 'c' and conv in 's' and not mt.group('width'):
            items.append(('ident',))
        elif arg_kind == 'o' and conv in 'xX':
            width = int(mt.group('width') or 0)
            zero = '0' in (mt.group('flags') or '')
            if width and not zero:
                raise Unsupported('space-padded hex format %r in %s' % (fmt, where))
            items.append(('hex', width, zero, conv == 'X'))
        elif arg_kind == 'o' and conv == 'd':
            items.append(('dec', int(mt.group('width') or 0)))
        elif arg_kind == 'o' and conv == 'c':
            items.append(('ident',))
        else:
            raise Unsupported('format %r applied to %s in %s' % (fmt, arg_kind, where))
    for ch in fmt[pos:]:
        items.append(('lit', ch))
    if n_conv != 1:
        raise Unsupported('format %r has %d conversions in %s' % (fmt, n_conv, where))
    return items


def extract_sub_fn(model, modname, fnname, domain):
    """Abstract interpretation of a re.sub callback on the class `domain`.
    Returns list of (IntervalSet, template|None)."""
    fn = model.func(modname, fnname)
    if len(fn.args.args) != 1:
        raise Unsupported('%s takes %d arguments' % (fnname, len(fn.args.args)))
    mname = fn.args.args[0].arg
    cvar = ovar = None
    cases = []
    remaining = domain

    def cond_set(test):
        # o >= K etc., c in '...', c == 'x'
        if isinstance(test, ast.Compare) and len(test.ops) == 1:
            l, r = test.left, test.comparators[0]
            op = test.ops[0]
            if isinstance(l, ast.Name) and l.id == ovar:
                k = model.fold(modname, r)
                if isinstance(k, int):
                    if isinstance(op, ast.GtE):
                        return L.iv((k, L.MAXCP))
                    if isinstance(op, ast.Gt):
                        return L.iv((k + 1, L.MAXCP))
                    if isinstance(op, ast.Lt):
                        return L.iv((0, k - 1))
                    if isinstance(op, ast.LtE):
                        return L.iv((0, k))
                    if isinstance(op, ast.Eq):
                        return L.iv((k, k))
            if isinstance(l, ast.Name) and l.id == cvar:
                k = model.fold(modname, r)
                if isinstance(op, ast.In) and isinstance(k, (str, tuple, list)) and all(
                        isinstance(x, str) and len(x) == 1 for x in k):
                    return L.iv_chars(k)
                if isinstance(op, ast.Eq) and isinstance(k, str) and len(k) == 1:
                    return L.iv_chars(k)
        if isinstance(test, ast.BoolOp):
            sets = [cond_set(v) for v in test.values]
            out = sets[0]
            for s_ in sets[1:]:
                out = L.iv_inter(out, s_) if isinstance(test.op, ast.And) else L.iv_union(out, s_)
            return out
        raise Unsupported('condition %r in %s' % (norm(test), fnname))

    def arg_kind(x):
        if isinstance(x, ast.Name):
            if x.id == cvar:
                return 'c'
            if x.id == ovar:
                return 'o'
            return None
        t = norm(x)
        if t in ('%s.group(0)' % mname, '%s.group()' % mname, '%s[0]' % mname, '%s.group(1)' % mname):
            return 'c'
        if isinstance(x, ast.Call) and norm(x.func) == 'ord' and len(x.args) == 1 and arg_kind(x.args[0]) == 'c':
            return 'o'
        return None

    def ret_template(value):
        if isinstance(value, ast.Constant) and isinstance(value.value, str):
            return [('lit', ch) for ch in value.value]
        if isinstance(value, ast.Constant) and value.value is None:
            return None
        if arg_kind(value) == 'c':
            return [('ident',)]
        if isinstance(value, ast.BinOp) and isinstance(value.op, ast.Mod):
            fmt = model.fold(modname, value.left)
            arg = value.right
            if isinstance(arg, ast.Tuple) and len(arg.elts) == 1:
                arg = arg.elts[0]
            if isinstance(fmt, str) and arg_kind(arg) in ('c', 'o'):
                return _fmt_template(fmt, arg_kind(arg), fnname)
        if isinstance(value, ast.BinOp) and isinstance(value.op, ast.Add):
            a, b = ret_template(value.left), ret_template(value.right)
            if a is not None and b is not None:
                return a + b
        raise Unsupported('return value %r in %s' % (norm(value), fnname))

    def walk(stmts, active):
        nonlocal cvar, ovar
        for st in stmts:
            if not active:
                return ()
            if isinstance(st, ast.Assign) and len(st.targets) == 1 and isinstance(st.targets[0], ast.Name):
                v = norm(st.value)
                if v in ('%s.group(0)' % mname, '%s.group()' % mname, '%s[0]' % mname, '%s.group(1)' % mname):
                    cvar = st.targets[0].id
                    continue
                if cvar and v == 'ord(%s)' % cvar:
                    ovar = st.targets[0].id
                    continue
                raise Unsupported('statement %r in %s' % (norm(st), fnname))
            if isinstance(st, ast.If):
                cs = L.iv_inter(cond_set(st.test), active)
                rest_then = walk(st.body, cs)
                rest_else = walk(st.orelse, L.iv_diff(active, cs)) if st.orelse else L.iv_diff(active, cs)
                active = L.iv_union(rest_then, rest_else)
                continue
            if isinstance(st, ast.Return):
                cases.append((active, ret_template(st.value) if st.value is not None else None, st))
                return ()
            if isinstance(st, ast.Expr) and isinstance(st.value, ast.Constant):
                continue
            raise Unsupported('statement %r in %s' % (norm(st).split('\n')[0], fnname))
        return active

    left = walk(body_wo_doc(fn), domain)
    if left:
        cases.append((left, None, fn))      # falls off the end: returns None -> the character is deleted
    return fn, cases


def _single_class(rc):
    pr = L.PyRegex(rc.pattern, rc.flags)
    if pr.anchored_start or pr.anchored_end:
        raise Unsupported('anchored escape regex %r' % rc.pattern)
    body = pr.body
    if body[0] == 'set':
        return body[1]
    if body[0] == 'alt' and all(x[0] == 'set' for x in body[1]):
        out = ()
        for x in body[1]:
            out = L.iv_union(out, x[1])
        return out
    raise Unsupported('escape regex %r is not a single character class' % rc.pattern)


class Pipeline(object):
    def __init__(self, fn, param):
        self.fn = fn
        self.param = param
        self.phases = []
        self.prefix = ''
        self.suffix = ''


def extract_pipeline(model, modname, fnname):
    """dump_str / dump_uri style: sub(fn) . replace-table . wrap."""
    fn = model.func(modname, fnname)
    param = fn.args.args[0].arg
    pipe = Pipeline(fn, param)
    cur = param
    pipe.fast = []
    for st in body_wo_doc(fn):
        # fast path: `if RE.match(v): return '<pre>%s<post>' % v`  (the text is emitted raw when the regex matches)
        if isinstance(st, ast.If) and not st.orelse and len(st.body) == 1 and isinstance(st.body[0], ast.Return) \
                and isinstance(st.test, ast.Call) and isinstance(st.test.func, ast.Attribute) \
                and st.test.func.attr in ('match', 'fullmatch', 'search') and len(st.test.args) == 1 \
                and norm(st.test.args[0]) == cur and cur == param:
            rc = model.fold(modname, st.test.func.value)
            v = st.body[0].value
            if isinstance(rc, RegexConst) and isinstance(v, ast.BinOp) and isinstance(v.op, ast.Mod) \
                    and norm(v.right) in (cur, '(%s,)' % cur) and isinstance(model.fold(modname, v.left), str):
                pipe.fast.append((rc, st.test.func.attr, model.fold(modname, v.left), st))
                continue
            raise Unsupported('%s: guarded early return %r' % (fnname, norm(st).split('\n')[0]))
        # w = v   (the text goes on under another name)
        if isinstance(st, ast.Assign) and len(st.targets) == 1 and isinstance(st.targets[0], ast.Name) \
                and isinstance(st.value, ast.Name) and st.value.id == cur:
            cur = st.targets[0].id
            continue
        # v = RE.sub(fn, v)
        if isinstance(st, ast.Assign) and len(st.targets) == 1 and isinstance(st.targets[0], ast.Name) \
                and isinstance(st.value, ast.Call) and isinstance(st.value.func, ast.Attribute) \
                and st.value.func.attr == 'sub' and len(st.value.args) in (2, 3) and norm(st.value.args[1]) == cur \
                and all(k.arg == 'count' for k in st.value.keywords):
            # Pattern.sub(repl, string, count=0): a third argument is the NUMBER of replacements, not a flag
            cnt_node = st.value.args[2] if len(st.value.args) == 3 else next((k.value for k in st.value.keywords), None)
            if cnt_node is not None:
                cnt = model.fold(modname, cnt_node)
                if not isinstance(cnt, int):
                    raise Unsupported('%s: count argument %s of sub() is not constant' % (fnname, norm(cnt_node)))
                if cnt != 0:
                    pipe.limited = getattr(pipe, 'limited', []) + [(cnt, norm(cnt_node), st)]
            rc = model.fold(modname, st.value.func.value)
            if not isinstance(rc, RegexConst):
                raise Unsupported('%s: %s is not a constant regex' % (fnname, norm(st.value.func.value)))
            cls = _single_class(rc)
            cb = st.value.args[0]
            if not isinstance(cb, ast.Name):
                raise Unsupported('%s: substitution callback %s' % (fnname, norm(cb)))
            r = model.resolve_name(modname, cb.id)
            if not r or r[0] == '<ext>':
                raise Unsupported('%s: callback %s not resolved' % (fnname, cb.id))
            cbfn, cases = extract_sub_fn(model, r[0], r[1], cls)
            ph = Phase('sub', '%s.sub(%s)' % (norm(st.value.func.value), cb.id), st)
            ph.cases = [(ivs, t) for ivs, t, _ in cases]
            ph.case_nodes = [n for _, _, n in cases]
            ph.regex = rc
            ph.cls = cls
            pipe.phases.append(ph)
            cur = st.targets[0].id
            continue
        # for orig, esc in TABLE: v = v.replace(orig, esc)
        if isinstance(st, ast.For) and isinstance(st.target, ast.Tuple) and len(st.target.elts) == 2 \
                and len(st.body) == 1 and isinstance(st.body[0], ast.Assign):
            a, b = [norm(e) for e in st.target.elts]
            asg = st.body[0]
            if norm(asg.value) == '%s.replace(%s, %s)' % (cur, a, b) and norm(asg.targets[0]) == cur:
                table = model.fold(modname, st.iter)
                if isinstance(table, Opaque) or not isinstance(table, (list, tuple)):
                    raise Unsupported('%s: replace table %s is not constant' % (fnname, norm(st.iter)))
                ph = Phase('replace', 'replace table %s' % norm(st.iter), st)
                ph.table_name = norm(st.iter)
                done = ()
                for pair in table:
                    if not (isinstance(pair, (tuple, list)) and len(pair) == 2 and all(isinstance(x, str) for x in pair)):
                        raise Unsupported('%s: replace table entry %r' % (fnname, pair))
                    orig, esc = pair
                    if len(orig) != 1:
                        raise Unsupported('%s: multi-character replace key %r' % (fnname, orig))
                    ph.cases.append((L.iv_chars(orig), [('lit', ch) for ch in esc]))
                # sequential replaces: a later key occurring in an earlier output is rewritten again
                ph.sequential = [(o, e) for o, e in table]
                pipe.phases.append(ph)
                continue
        if isinstance(st, ast.Assign) and len(st.targets) == 1 and isinstance(st.value, ast.Call) \
                and isinstance(st.value.func, ast.Attribute) and st.value.func.attr == 'replace' \
                and norm(st.value.func.value) == cur and len(st.value.args) == 2:
            o = model.fold(modname, st.value.args[0])
            e = model.fold(modname, st.value.args[1])
            if isinstance(o, str) and len(o) == 1 and isinstance(e, str):
                ph = Phase('replace', 'replace(%r, %r)' % (o, e), st)
                ph.cases.append((L.iv_chars(o), [('lit', ch) for ch in e]))
                ph.sequential = [(o, e)]
                pipe.phases.append(ph)
                cur = norm(st.targets[0])
                continue
        # v = v.translate(TABLE): every key of the table (a code point) is replaced by its text, all at once
        if isinstance(st, ast.Assign) and len(st.targets) == 1 and isinstance(st.value, ast.Call) \
                and isinstance(st.value.func, ast.Attribute) and st.value.func.attr == 'translate' \
                and norm(st.value.func.value) == cur and len(st.value.args) == 1:
            table = model.fold(modname, st.value.args[0])
            if not (isinstance(table, dict) and table and all(isinstance(k, int) and isinstance(v_, str) for k, v_ in table.items())):
                raise Unsupported('%s: translate table %s is not a constant {code point: text}' % (fnname, norm(st.value.args[0])))
            ph = Phase('sub', 'translate(%s)' % norm(st.value.args[0]), st)
            ph.cases = [(((k, k),), [('lit', ch) for ch in table[k]]) for k in sorted(table)]
            ph.case_nodes = [st] * len(ph.cases)
            ph.regex = None
            ph.cls = L.iv_norm([(k, k) for k in table])
            pipe.phases.append(ph)
            cur = norm(st.targets[0])
            continue
        if isinstance(st, ast.Return):
            v = st.value
            if isinstance(v, ast.BinOp) and isinstance(v.op, ast.Mod) and norm(v.right) in (cur, '(%s,)' % cur):
                fmt = model.fold(modname, v.left)
                if isinstance(fmt, str) and fmt.count('%s') == 1 and fmt.count('%') == 1:
                    pipe.prefix, pipe.suffix = fmt.split('%s')
                    pipe.ret = st
                    return pipe
            if isinstance(v, ast.BinOp) and isinstance(v.op, ast.Add):
                parts = []
                e = v
                while isinstance(e, ast.BinOp) and isinstance(e.op, ast.Add):
                    parts.insert(0, e.right)
                    e = e.left
                parts.insert(0, e)
                if len(parts) == 3 and norm(parts[1]) == cur and all(isinstance(p, ast.Constant) for p in (parts[0], parts[2])):
                    pipe.prefix, pipe.suffix = parts[0].value, parts[2].value
                    pipe.ret = st
                    return pipe
            raise Unsupported('%s: return %s' % (fnname, norm(v)))
        if isinstance(st, ast.Expr) and isinstance(st.value, ast.Constant):
            continue
        raise Unsupported('%s: statement %r' % (fnname, norm(st).split('\n')[0]))
    raise Unsupported('%s: no return' % fnname)


def _apply_replace_seq(seq, text):
    for o, e in seq:
        text = text.replace(o, e)
    return text


def compose(pipe):
    """-> list of (IntervalSet piece, template|None) covering 0..MAXCP, plus notes on interference."""
    points = {0, L.MAXCP + 1}
    for ph in pipe.phases:
        for ivs, _ in ph.cases:
            for lo, hi in ivs:
                points.add(lo)
                points.add(hi + 1)
    pts = sorted(points)
    pieces = [(pts[i], pts[i + 1] - 1) for i in range(len(pts) - 1)]
    notes = []
    out = []
    for lo, hi in pieces:
        tmpl = [('ident',)]
        for ph in pipe.phases:
            if tmpl is None:
                break
            new = []
            for it in tmpl:
                if it[0] == 'ident':
                    t = ph.lookup(lo)
                    if t is None:
                        new = None
                        break
                    if ph.kind == 'replace' and t != [('ident',)]:
                        # sequential replaces may rewrite the output of an earlier pair
                        text = ''.join(x[1] for x in t)
                        # which pair produced it? apply the remaining pairs in order
                        seq = ph.sequential
                        idx = [i for i, (o, e) in enumerate(seq) if lo <= ord(o) <= hi]
                        if idx:
                            after = _apply_replace_seq(seq[idx[0] + 1:], text)
                            if after != text:
                                notes.append(('replace-interference', lo, text, after, ph))
                            t = [('lit', ch) for ch in after]
                    new.extend(t)
                elif it[0] == 'lit':
                    cp = ord(it[1])
                    if ph.kind == 'replace':
                        text = _apply_replace_seq(ph.sequential, it[1])
                        if text != it[1]:
                            notes.append(('phase-rewrites-earlier-output', lo, it[1], text, ph))
                        new.extend(('lit', ch) for ch in text)
                    else:
                        t = ph.lookup(cp)
                        if t is None:
                            notes.append(('phase-deletes-earlier-output', lo, it[1], '', ph))
                            continue
                        conc = concretise(t, cp)
                        if conc != it[1]:
                            notes.append(('phase-rewrites-earlier-output', lo, it[1], conc, ph))
                        new.extend(('lit', ch) for ch in conc)
                else:
                    # hex / dec digits: a later phase must not touch [0-9a-fA-F]
                    if L.iv_inter(ph.domain(), L.iv_union(HEXSET, HEXSET_UP)):
                        raise Unsupported('phase %s rewrites hexadecimal digits produced by an earlier phase' % ph.desc)
                    new.append(it)
            tmpl = new
        out.append((((lo, hi),), tmpl))
    # merge adjacent pieces with identical templates
    merged = []
    for ivs, t in out:
        if merged and merged[-1][1] == t and t is not None and all(x[0] != 'lit' or True for x in t) \
                and merged[-1][0][-1][1] + 1 == ivs[0][0]:
            merged[-1] = (L.iv_union(merged[-1][0], ivs), t)
        else:
            merged.append((ivs, t))
    return merged, notes


def concretise(tmpl, cp):
    s = ''
    for it in tmpl:
        if it[0] == 'lit':
            s += it[1]
        elif it[0] == 'ident':
            s += chr(cp)
        elif it[0] == 'hex':
            f = '%' + ('0' if it[2] else '') + (str(it[1]) if it[1] else '') + ('X' if it[3] else 'x')
            s += f % cp
        elif it[0] == 'dec':
            s += ('%0' + str(it[1]) + 'd') % cp if it[1] else str(cp)
    return s


def show_template(tmpl):
    if tmpl is None:
        return '<deleted>'
    out = ''
    for it in tmpl:
        if it[0] == 'lit':
            out += it[1] if it[1].isprintable() else repr(it[1])[1:-1]
        elif it[0] == 'ident':
            out += '<c>'
        elif it[0] == 'hex':
            out += '<hex%s%d>' % ('0' if it[2] else '', it[1])
        else:
            out += '<dec>'
    return out


def show_class(ivs):
    parts = []
    for lo, hi in ivs[:6]:
        parts.append('U+%04X' % lo if lo == hi else 'U+%04X..U+%04X' % (lo, hi))
    if len(ivs) > 6:
        parts.append('…')
    return ','.join(parts)


def template_rx(ivs, tmpl):
    """Language of the images of the class under the template (tight for lit/ident, an
    over-approximation for hex: all digit strings of the admissible widths)."""
    if tmpl is None:
        return L.EPS
    parts = []
    for it in tmpl:
        if it[0] == 'lit':
            parts.append(L.rlit(it[1]))
        elif it[0] == 'ident':
            parts.append(L.rset(ivs))
        elif it[0] == 'hex':
            digs = L.rset(HEXSET_UP if it[3] else HEXSET)
            hi = ivs[-1][1]
            lo = ivs[0][0]
            wmin = max(it[1], len('%x' % lo)) if it[2] or not it[1] else it[1]
            wmax = max(it[1], len('%x' % hi))
            parts.append(L.rrepeat(digs, wmin, wmax))
        else:
            parts.append(L.rplus(L.rset(L.ASCII_DIGIT)))
    return L.rcat(*parts)


def image_language(classes):
    """(union of the class images)*"""
    return L.rstar(L.ralt(*[template_rx(ivs, t) for ivs, t in classes]))


# ----------------------------------------------------------------------------------
# reader: _unescape
# ----------------------------------------------------------------------------------

class UnescapeSpec(object):
    pass


class MultiPass(Exception):
    """The decoder rewrites the whole text before (or after) its left-to-right scan: a definite defect, since an
    escape sequence can then be recognised at a position that the scan would have reached in another state
    (after an escaped backslash)."""

    def __init__(self, node, text, written, single, multi):
        Exception.__init__(self, text)
        self.node, self.text, self.written, self.single, self.multi = node, text, written, single, multi


def _stmts_outside(fn, loop):
    out = []
    stack = list(body_wo_doc(fn))
    while stack:
        st = stack.pop(0)
        if st is loop:
            continue
        out.append(st)
        if isinstance(st, (ast.FunctionDef, ast.AsyncFunctionDef, ast.ClassDef)):
            continue
        for field in ('body', 'orelse', 'finalbody'):
            b = getattr(st, field, None)
            if isinstance(b, list):
                stack.extend(x for x in b if isinstance(x, ast.stmt))
        for h in getattr(st, 'handlers', []) or []:
            stack.extend(h.body)
    return out


_NEG_LOOKBEHIND = re.compile(r'^\(\?<!((?:[^()\\]|\\.)*)\)')


def _prepass(model, modname, fn, s, loop):
    """statements outside the scanning loop (at any depth) that rewrite the subject string as a whole; with no loop
    at all, two or more such rewrites in a row are the same defect (a pipeline of passes instead of one scan)"""
    rewrites = []
    for st in _stmts_outside(fn, loop):
        v = None
        if isinstance(st, ast.Assign) and len(st.targets) == 1 and norm(st.targets[0]) == s:
            v = st.value
        elif isinstance(st, ast.Return) and st.value is not None and loop is None:
            v = st.value
        if not (isinstance(v, ast.Call) and isinstance(v.func, ast.Attribute) and v.func.attr in ('sub', 'replace', 'translate')):
            continue
        if not any(isinstance(x, ast.Name) and x.id == s for x in ast.walk(v)):
            continue
        rewrites.append((st, v))
    if loop is None and len(rewrites) < 2:
        return
    for st, v in rewrites:
        pat = None
        if v.func.attr == 'sub':
            rc = model.fold(modname, v.func.value)
            pat = getattr(rc, 'pattern', None)
            if pat is None and norm(v.func.value) == 're' and v.args:
                pat = model.fold(modname, v.args[0])
        elif v.func.attr == 'replace' and v.args:
            lit = model.fold(modname, v.args[0])
            pat = re.escape(lit) if isinstance(lit, str) else None
        w = None
        guarded = False
        if isinstance(pat, str):
            mo = _NEG_LOOKBEHIND.match(pat)
            if mo:
                # a negative look-behind for the escape character: "not when its backslash is itself escaped"
                try:
                    lb = L.PyRegex(mo.group(1)).full()
                    guarded = L.find_common(L.build(lb), L.build(L.rlit('\\'))) is not None
                except Exception:
                    guarded = False
                if guarded:
                    pat = pat[mo.end():]
            try:
                rx = L.PyRegex(pat).full()
                hit = L.find_common(L.build(rx), L.build(L.rcat(L.rlit('\\'), L.rany_star())))
                if hit is not None:
                    w = ''.join(chr(c) for c in hit)
            except Exception:
                w = None
        what = 'the whole text is rewritten with `%s` %s' % (norm(v)[:70], 'outside the scanning loop' if loop is not None
                                                           else 'in one of several passes, not in one scan')
        if w and guarded:
            e = MultiPass(st, what, '\\\\' + w, '\\ followed by the character %r denotes' % w,
                          'the escaped backslash, then %r left undecoded by this pass: its look-behind sees a backslash, '
                          'which is the second half of an escaped backslash' % w)
            e.guarded = True
            raise e
        if w:
            raise MultiPass(st, what, '\\' + w, '\\' + w[1:], 'backslash followed by the rewritten form of %r' % w)
        raise MultiPass(st, what, None, None, None)


def extract_unescape(model, modname='zincparser', fnname='_unescape'):
    fn = model.func(modname, fnname, 'nested')
    a = [x.arg for x in fn.args.args]
    if len(a) != 2:
        raise Unsupported('%s signature changed' % fnname)
    s, uri = a
    sp = UnescapeSpec()
    sp.fn = fn
    loops = [st for st in body_wo_doc(fn) if isinstance(st, ast.While)]
    if not loops:
        loops = [st for st in ast.walk(fn) if isinstance(st, ast.While)]
    _prepass(model, modname, fn, s, loops[0] if len(loops) == 1 else None)
    if len(loops) != 1 or norm(loops[0].test) not in ('len(%s) > 0' % s, s, 'len(%s)' % s, '%s != \'\'' % s):
        raise Unsupported('%s: main loop not recognised' % fnname)
    body = loops[0].body
    # c = s[0]
    if not (isinstance(body[0], ast.Assign) and norm(body[0].value) == '%s[0]' % s):
        raise Unsupported('%s: loop does not start with c = s[0]' % fnname)
    c = norm(body[0].targets[0])
    top = body[1]
    if not (isinstance(top, ast.If) and isinstance(top.test, ast.Compare) and norm(top.test.left) == c
            and isinstance(top.test.ops[0], ast.Eq) and isinstance(top.test.comparators[0], ast.Constant)):
        raise Unsupported('%s: escape test not recognised' % fnname)
    sp.bs = top.test.comparators[0].value
    # else branch: out += c; s = s[1:]
    els = [norm(x) for x in top.orelse]
    m_ = re.match(r'^(\w+) \+= %s$' % re.escape(c), els[0]) if els else None
    if not m_ or len(els) != 2 or els[1] != '%s = %s[1:]' % (s, s):
        raise Unsupported('%s: plain-character branch is %s' % (fnname, els))
    out = m_.group(1)
    sp.out = out
    esc_body = top.body
    if not (isinstance(esc_body[0], ast.Assign) and norm(esc_body[0].value) == '%s[1]' % s):
        raise Unsupported('%s: esc_c = s[1] not found' % fnname)
    e = norm(esc_body[0].targets[0])
    uni = esc_body[1]
    if not (isinstance(uni, ast.If) and isinstance(uni.test, ast.Compare) and norm(uni.test.left) == e
            and isinstance(uni.test.ops[0], ast.In)):
        raise Unsupported('%s: unicode-escape test not recognised' % fnname)
    intro = model.fold(modname, uni.test.comparators[0])
    if not isinstance(intro, (tuple, list, str)):
        raise Unsupported('%s: unicode introducers not constant' % fnname)
    sp.uni = set(intro)
    ub = [norm(x) for x in uni.body]
    mm = re.match(r'^%s \+= (?:six\.unichr|chr)\(int\(%s\[(\d+):(\d+)\], (?:base=)?(\d+)\)\)$' % (out, s), ub[0]) if ub else None
    mc = re.match(r'^%s = %s\[(\d+):\]$' % (s, s), ub[1]) if len(ub) > 1 else None
    if not mm or not mc:
        raise Unsupported('%s: unicode-escape body is %s' % (fnname, ub))
    sp.hex_from, sp.hex_to, sp.base, sp.uni_consume = int(mm.group(1)), int(mm.group(2)), int(mm.group(3)), int(mc.group(1))
    sp.uni_node = uni
    # loop control: every branch goes on with the rest of the text (`continue` or falling to the loop end);
    # a `break`/`return` inside the scanning loop drops the remainder of the string
    sp.loop_exits = [n for n in ast.walk(loops[0]) if isinstance(n, (ast.Break, ast.Return))]
    # simple escapes
    sp.simple = {}
    sp.uri_keep = set()
    sp.pass_through = False
    rest = uni.orelse
    chain = rest[0] if rest and isinstance(rest[0], ast.If) else None
    tail = rest[1:] if chain is not None else rest

    def walk_chain(node):
        while isinstance(node, ast.If):
            t = node.test
            if isinstance(t, ast.Compare) and norm(t.left) == e and isinstance(t.ops[0], ast.Eq) \
                    and isinstance(t.comparators[0], ast.Constant) and len(node.body) == 1:
                b = norm(node.body[0])
                mo = re.match(r'^%s \+= (.+)$' % out, b)
                val = model.fold(modname, node.body[0].value) if isinstance(node.body[0], ast.AugAssign) else None
                if mo and isinstance(val, str):
                    sp.simple[t.comparators[0].value] = val
                else:
                    raise Unsupported('%s: escape branch %r' % (fnname, b))
            else:
                raise Unsupported('%s: escape chain test %r' % (fnname, norm(t)))
            if len(node.orelse) == 1 and isinstance(node.orelse[0], ast.If):
                node = node.orelse[0]
            else:
                final = node.orelse
                for st in final:
                    if isinstance(st, ast.If):
                        tt = norm(st.test)
                        mo = re.match(r"^%s and %s == '(.)'$" % (uri, e), tt)
                        members = None
                        if isinstance(st.test, ast.BoolOp) and isinstance(st.test.op, ast.And) and len(st.test.values) == 2 \
                                and norm(st.test.values[0]) == uri and isinstance(st.test.values[1], ast.Compare) \
                                and norm(st.test.values[1].left) == e and len(st.test.values[1].ops) == 1 \
                                and isinstance(st.test.values[1].ops[0], ast.In):
                            members = model.fold(modname, st.test.values[1].comparators[0])
                            if isinstance(members, (list, tuple, set, frozenset)) and all(isinstance(x, str) and len(x) == 1 for x in members):
                                members = ''.join(sorted(members))
                        if mo and [norm(x) for x in st.body] == ["%s += %r" % (out, sp.bs)]:
                            sp.uri_keep.add(mo.group(1))
                        elif isinstance(members, str) and [norm(x) for x in st.body] == ["%s += %r" % (out, sp.bs)]:
                            sp.uri_keep |= set(members)        # `uri and esc_c in '<chars>'`: the backslash is kept for each
                        else:
                            raise Unsupported('%s: pass-through special case %r' % (fnname, tt))
                    elif norm(st) == '%s += %s' % (out, e):
                        sp.pass_through = True
                    else:
                        raise Unsupported('%s: pass-through branch %r' % (fnname, norm(st)))
                node = None
    if chain is not None:
        walk_chain(chain)
    tl = [norm(x) for x in tail if not isinstance(x, ast.Continue)]
    mc = re.match(r'^%s = %s\[(\d+):\]$' % (s, s), tl[0]) if tl else None
    if not mc:
        raise Unsupported('%s: simple-escape consume statement is %s' % (fnname, tl))
    sp.consume = int(mc.group(1))
    # returns out
    rets = [norm(x.value) for x in body_wo_doc(fn) if isinstance(x, ast.Return)]
    if rets != [out]:
        raise Unsupported('%s returns %s' % (fnname, rets))
    return sp


def decode_char(sp, text, uri):
    """Run the extracted reader transducer on a concrete image; returns (output, consumed) for the
    first iteration(s) until the text is consumed, or raises ValueError for an index error."""
    out = ''
    s = text
    steps = 0
    while len(s) > 0:
        steps += 1
        if s[0] == sp.bs:
            if len(s) < 2:
                raise ValueError('IndexError: backslash at end of string')
            e = s[1]
            if e in sp.uni:
                digs = s[sp.hex_from:sp.hex_to]
                try:
                    v = int(digs, sp.base)
                except ValueError:
                    raise ValueError('ValueError: int(%r, %d)' % (digs, sp.base))
                out += chr(v)
                s = s[sp.uni_consume:]
            else:
                if e in sp.simple:
                    out += sp.simple[e]
                else:
                    if uri and e in sp.uri_keep:
                        out += sp.bs
                    if sp.pass_through:
                        out += e
                s = s[sp.consume:]
        else:
            out += s[0]
            s = s[1:]
    return out, steps


def representative_points(ivs, extra=()):
    """Representatives of a class: both ends of every range, neighbours, plus extras inside."""
    pts = set()
    for lo, hi in ivs:
        pts.update({lo, hi, min(lo + 1, hi), max(hi - 1, lo), (lo + hi) // 2})
    for x in extra:
        if L.iv_contains(ivs, x):
            pts.add(x)
    return sorted(pts)
