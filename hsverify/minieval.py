"""Decision tables over a finite domain of representative values.

`ev(expr, env)` gives the value of a side-effect free expression (names, attributes of record-like dict values,
constants, and / or / not, comparisons, conditional expressions, bool() / len() / str()) for ONE assignment of
representatives to its free names; `table(expr, names, domain)` does that for every assignment.  A rule then compares
the table with the table of the expected predicate and reports the first assignment where they differ as the witness.
Anything outside the listed constructs raises Undecided -- the rule answers "cannot decide", never guesses."""
from __future__ import annotations

import ast
import itertools

from .model import norm


class Undecided(Exception):
    pass


_CMP = {ast.Eq: lambda a, b: a == b, ast.NotEq: lambda a, b: a != b, ast.Is: lambda a, b: a is b,
        ast.IsNot: lambda a, b: a is not b, ast.In: lambda a, b: a in b, ast.NotIn: lambda a, b: a not in b,
        ast.Lt: lambda a, b: a < b, ast.LtE: lambda a, b: a <= b, ast.Gt: lambda a, b: a > b, ast.GtE: lambda a, b: a >= b}


def ev(e, env):
    if isinstance(e, ast.Constant):
        return e.value
    if isinstance(e, ast.Name):
        if e.id in env:
            return env[e.id]
        if e.id in ('True', 'False', 'None'):
            return {'True': True, 'False': False, 'None': None}[e.id]
        raise Undecided('name %s' % e.id)
    if isinstance(e, ast.Attribute):
        base = ev(e.value, env)
        if isinstance(base, dict) and e.attr in base:
            return base[e.attr]
        raise Undecided('attribute %s' % e.attr)
    if isinstance(e, ast.Tuple):
        return tuple(ev(x, env) for x in e.elts)
    if isinstance(e, ast.UnaryOp) and isinstance(e.op, ast.Not):
        return not ev(e.operand, env)
    if isinstance(e, ast.UnaryOp) and isinstance(e.op, ast.USub):
        v = ev(e.operand, env)
        if isinstance(v, (int, float)) and not isinstance(v, bool):
            return -v
        raise Undecided('negation of a non-number')
    if isinstance(e, ast.BinOp) and isinstance(e.op, (ast.Add, ast.Sub)):
        a, b = ev(e.left, env), ev(e.right, env)
        if all(isinstance(x, int) and not isinstance(x, bool) for x in (a, b)):
            return a + b if isinstance(e.op, ast.Add) else a - b
        raise Undecided('arithmetic on non-integers')
    if isinstance(e, ast.BoolOp):
        v = None
        for x in e.values:
            v = ev(x, env)
            if isinstance(e.op, ast.And) and not v:
                return v
            if isinstance(e.op, ast.Or) and v:
                return v
        return v
    if isinstance(e, ast.IfExp):
        return ev(e.body, env) if ev(e.test, env) else ev(e.orelse, env)
    if isinstance(e, ast.Compare):
        left = ev(e.left, env)
        for op, r_ in zip(e.ops, e.comparators):
            right = ev(r_, env)
            f = _CMP.get(type(op))
            if f is None:
                raise Undecided('comparison')
            # identity of representatives means nothing except against the singletons
            if isinstance(op, (ast.Is, ast.IsNot)) and not (left is None or right is None or isinstance(left, bool)
                                                           or isinstance(right, bool)):
                raise Undecided('identity test between non-singletons')
            try:
                if not f(left, right):
                    return False
            except TypeError:
                raise Undecided('comparison of unordered kinds')
            left = right
        return True
    if isinstance(e, ast.Call) and not e.keywords and len(e.args) == 2 and norm(e.func) == 'isinstance':
        types = {'list': list, 'dict': dict, 'str': str, 'bool': bool, 'int': int, 'float': float, 'tuple': tuple,
                 'six.string_types': str, 'six.text_type': str, 'six.binary_type': bytes, 'bytes': bytes,
                 'six.integer_types': int, 'set': set, 'numbers.Number': (int, float), 'numbers.Integral': int,
                 'slice': slice}
        types.update(env.get('__types__', {}))      # rule-supplied classes (an empty tuple: never an instance)
        tn = e.args[1]
        names = [norm(x) for x in tn.elts] if isinstance(tn, ast.Tuple) else [norm(tn)]
        if all(n in types for n in names):
            flat = []
            for n in names:
                flat.extend(types[n] if isinstance(types[n], tuple) else (types[n],))
            return isinstance(ev(e.args[0], env), tuple(flat))
        raise Undecided('isinstance against %s' % norm(tn))
    if isinstance(e, ast.Call) and not e.keywords and len(e.args) == 1:
        f = norm(e.func)
        a = ev(e.args[0], env)
        if f == 'bool':
            return bool(a)
        if f == 'len' and isinstance(a, (str, tuple)):
            return len(a)
        if f in ('str', 'six.text_type') and isinstance(a, str):
            return a
    raise Undecided(norm(e)[:60] if isinstance(e, ast.AST) else type(e).__name__)


def table(expr, names, domain, build=None):
    """[(assignment tuple, value)] over domain ** len(names); `build(assignment)` gives the env (default: name -> value)"""
    out = []
    for combo in itertools.product(domain, repeat=len(names)):
        env = build(combo) if build else dict(zip(names, combo))
        out.append((combo, ev(expr, env)))
    return out


class _Return(Exception):
    def __init__(self, value):
        self.value = value


def run(body, env, fuel=200):
    """Straight-line / if / return bodies over the same representatives: assignments to plain names and to attributes
    of record values (`self.x = e` with self a dict), `if`, `return`, docstrings, `pass`.  Returns the returned value
    (None when the body falls off its end); the environment is updated in place.  `hash(x)` is the marker ('hash', x),
    `a ^ b` of markers the frozenset of both (order-free, like xor).  Anything else: Undecided."""
    def ev2(e):
        if isinstance(e, ast.Call) and norm(e.func) == 'hash' and len(e.args) == 1 and not e.keywords:
            return ('hash', ev2(e.args[0]))
        if isinstance(e, ast.BinOp) and isinstance(e.op, ast.BitXor):
            a, b = ev2(e.left), ev2(e.right)
            parts = []
            for x in (a, b):
                parts.extend(sorted(x[1], key=repr) if isinstance(x, tuple) and x and x[0] == 'xor' else [x])
            return ('xor', tuple(sorted(parts, key=repr)))
        if isinstance(e, ast.Tuple):
            return tuple(ev2(x) for x in e.elts)
        if isinstance(e, ast.Name) and e.id == 'NotImplemented':
            return NotImplemented
        if isinstance(e, ast.BoolOp):
            v = None
            for x in e.values:
                v = ev2(x)
                if isinstance(e.op, ast.And) and not v:
                    return v
                if isinstance(e.op, ast.Or) and v:
                    return v
            return v
        if isinstance(e, ast.UnaryOp) and isinstance(e.op, ast.Not):
            return not ev2(e.operand)
        if isinstance(e, ast.Compare) and len(e.ops) == 1 and isinstance(e.ops[0], (ast.Eq, ast.NotEq)) \
                and all(isinstance(x, (ast.Name, ast.Attribute, ast.Constant)) for x in (e.left, e.comparators[0])):
            a, b = ev2(e.left), ev2(e.comparators[0])
            same = (a == b) and (type(a) is type(b) or not isinstance(a, bool) and not isinstance(b, bool))
            return same if isinstance(e.ops[0], ast.Eq) else not same
        return ev(e, env)

    def go(stmts):
        nonlocal fuel
        for st in stmts:
            fuel -= 1
            if fuel < 0:
                raise Undecided('step budget')
            if isinstance(st, ast.Expr) and isinstance(st.value, ast.Constant):
                continue
            if isinstance(st, ast.Pass):
                continue
            if isinstance(st, ast.Return):
                raise _Return(ev2(st.value) if st.value is not None else None)
            if isinstance(st, ast.If):
                go(st.body if ev2(st.test) else st.orelse)
                continue
            if isinstance(st, ast.Assign) and len(st.targets) == 1:
                t = st.targets[0]
                v = ev2(st.value)
                if isinstance(t, ast.Name):
                    env[t.id] = v
                    continue
                if isinstance(t, ast.Attribute) and isinstance(t.value, ast.Name) and isinstance(env.get(t.value.id), dict):
                    env[t.value.id][t.attr] = v
                    continue
            raise Undecided('statement %s' % norm(st).split('\n')[0][:50])
    try:
        go(body)
    except _Return as r:
        return r.value
    return None
