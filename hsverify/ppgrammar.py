"""E2 -- abstract evaluation of the pyparsing combinator code of zincparser.py / grid_filter.py.

The module-level statements are evaluated over a small domain (grammar nodes, wrapper callables,
version-indexed families, closures, folded constants).  Nothing is imported: the result is a
grammar graph read off the AST.  Unknown constructs become Opaque nodes; rules touching an opaque
node end in ANALYSIS-ERROR."""
from __future__ import annotations

import ast
import copy as _copy

from . import lang as L
from .lang import Unsupported
from .model import AnalysisError, Opaque, VersionConst, norm

PP_KINDS = {
    'Regex', 'Literal', 'CaselessLiteral', 'Word', 'Empty', 'And', 'Or', 'MatchFirst', 'Optional', 'Opt',
    'ZeroOrMore', 'OneOrMore', 'Combine', 'Suppress', 'Group', 'Forward', 'delimitedList', 'DelimitedList',
    'White', 'Keyword', 'CaselessKeyword', 'NotAny', 'FollowedBy', 'StringEnd', 'LineEnd', 'QuotedString',
}
WS = L.iv_chars(' \t\n\r')


# pyparsing_common elements as regular expressions (identchars / identbodychars are the Latin-1 identifier sets)
_IDSTART = 'A-Za-z_\u00aa\u00b5\u00ba\u00c0-\u00d6\u00d8-\u00f6\u00f8-\u00ff'
_IDBODY = _IDSTART + '0-9\u00b7'
LIBRARY_ELEMENTS = {
    'pyparsing_common.identifier': '[%s][%s]*' % (_IDSTART, _IDBODY),
    'pyparsing.pyparsing_common.identifier': '[%s][%s]*' % (_IDSTART, _IDBODY),
    'pyparsing_common.integer': '[0-9]+',
    'pyparsing_common.signed_integer': '[+-]?[0-9]+',
    'pyparsing_common.hex_integer': '[0-9a-fA-F]+',
}


class GNode(object):
    _ids = 0

    def __init__(self, kind, children=None, data=None, lineno=None, mod=None):
        GNode._ids += 1
        self.id = GNode._ids
        self.kind = kind
        self.children = children or []
        self.data = data or {}
        self.action = None          # Closure | FuncRef | None
        self.name = None
        self.lineno = lineno
        self.leave_ws = False
        self.var = None
        self.mod = mod
        self.content = None         # Forward target

    def clone(self, deep=False):
        n = GNode(self.kind, list(self.children), dict(self.data), self.lineno, self.mod)
        n.action = self.action
        n.name = self.name
        n.leave_ws = self.leave_ws
        n.var = self.var
        n.content = self.content
        if deep and self.kind != 'Forward':
            n.children = [c.clone(True) if isinstance(c, GNode) else c for c in self.children]
        return n

    def set_leave_ws(self, recursive=True):
        self.leave_ws = True
        if recursive and self.kind != 'Forward':
            self.children = [c if c.kind == 'Forward' else c.clone() for c in self.children]
            for c in self.children:
                if c.kind != 'Forward':
                    c.set_leave_ws(True)
                else:
                    c.leave_ws = True
        return self

    def label(self):
        return self.var or self.name or '%s@%s' % (self.kind, self.lineno)

    def __repr__(self):
        return '<%s %s>' % (self.kind, self.label())


class Wrapper(object):
    def __init__(self, kind, leave_ws):
        self.kind = kind
        self.leave_ws = leave_ws


class Closure(object):
    def __init__(self, node, env, mod):
        self.node = node
        self.env = env
        self.mod = mod


class FuncRef(object):
    def __init__(self, name, node, mod):
        self.name = name
        self.node = node
        self.mod = mod


class Family(object):
    """GenerateMatch(lambda ver: ...)"""

    def __init__(self, closure, var=None):
        self.closure = closure
        self.cache = {}
        self.var = var


class NearestMap(object):
    def __init__(self, mapping):
        self.mapping = mapping


class Grammar(object):
    def __init__(self, model, modname):
        self.model = model
        self.modname = modname
        self.mod = model.mod(modname)
        self.env = {}
        self.nodes = 0
        self.opaque = []
        self.imported = {}
        self._eval_module()

    # ------------------------------------------------------------------ evaluation
    def _eval_module(self):
        m = self.mod
        # imports
        for local, (src, orig) in m.imports.items():
            if src == 'pyparsing' and orig in PP_KINDS:
                self.env[local] = Wrapper(orig, False)
            elif src.startswith('.') and src.lstrip('.') in self.model.modules and orig:
                other = src.lstrip('.')
                if other in ('zincparser',) and other != self.modname:
                    og = grammar_of(self.model, other)
                    if orig in og.env:
                        self.env[local] = og.env[orig]
                        continue
                self.imported[local] = (other, orig)
        for st in m.tree.body:
            self._stmt(st)

    def _stmt(self, st):
        if isinstance(st, ast.Assign) and len(st.targets) == 1 and isinstance(st.targets[0], ast.Name):
            name = st.targets[0].id
            # wrapper definitions: X = lambda *a, **kwa: _leave_ws(pp.X, *a, **kwa)
            if isinstance(st.value, ast.Lambda):
                b = st.value.body
                if isinstance(b, ast.Call) and norm(b.func) == '_leave_ws' and b.args \
                        and norm(b.args[0]).startswith('pp.'):
                    self.env[name] = Wrapper(norm(b.args[0])[3:], True)
                    return
            v = self._expr(st.value, {})
            if isinstance(v, GNode) and v.var is None:
                v.var = name
            if isinstance(v, Family) and v.var is None:
                v.var = name
            self.env[name] = v
        elif isinstance(st, ast.AugAssign) and isinstance(st.op, ast.LShift) and isinstance(st.target, ast.Name):
            fwd = self.env.get(st.target.id)
            v = self._expr(st.value, {})
            if isinstance(fwd, GNode) and fwd.kind == 'Forward' and isinstance(v, GNode):
                fwd.content = v
                fwd.children = [v]
            else:
                self.opaque.append('<<= on %s' % st.target.id)
        elif isinstance(st, ast.FunctionDef):
            self.env[st.name] = FuncRef(st.name, st, self.modname)
        elif isinstance(st, ast.Expr) and isinstance(st.value, ast.BinOp) and isinstance(st.value.op, ast.LShift):
            pass
        # everything else (imports, classes, constants handled by Model.fold) is ignored here

    def _lit(self, s, lineno):
        n = GNode('Literal', data={'s': s}, lineno=lineno, mod=self.modname)
        self.nodes += 1
        return n

    def _as_node(self, v, lineno):
        if isinstance(v, GNode):
            return v
        if isinstance(v, str):
            return self._lit(v, lineno)
        return None

    def _expr(self, e, env):
        ln = getattr(e, 'lineno', None)
        if isinstance(e, ast.Name):
            if e.id in env:
                return env[e.id]
            if e.id in self.env:
                return self.env[e.id]
            c = self.model.fold(self.modname, e)
            return c
        if isinstance(e, ast.Constant):
            return e.value
        if isinstance(e, ast.Lambda):
            return Closure(e, dict(env), self.modname)
        if isinstance(e, (ast.List, ast.Tuple)):
            return [self._expr(x, env) for x in e.elts]
        if isinstance(e, ast.Dict):
            out = {}
            for k, v in zip(e.keys, e.values):
                out[self._key(self._expr(k, env))] = self._expr(v, env)
            return out
        if isinstance(e, ast.BinOp):
            if isinstance(e.op, (ast.Add, ast.BitOr, ast.BitXor, ast.Sub)):
                l = self._expr(e.left, env)
                r = self._expr(e.right, env)
                if isinstance(l, GNode) or isinstance(r, GNode):
                    ln_ = self._as_node(l, ln)
                    rn = self._as_node(r, ln)
                    if ln_ is None or rn is None:
                        return Opaque('operand of %s' % type(e.op).__name__)
                    # `a - b` is And with an error stop: same language, but a failure after `a` raises
                    # ParseSyntaxException (a ParseFatalException, NOT a ParseException)
                    kind = {'Add': 'And', 'BitOr': 'MatchFirst', 'BitXor': 'Or', 'Sub': 'And'}[type(e.op).__name__]
                    kids = []
                    # pyparsing flattens chains of the same operator only when the left side is an
                    # un-named, action-free expression of the same kind created by the operator
                    if ln_.kind == kind and ln_.data.get('op') and ln_.action is None and ln_.var is None:
                        kids = list(ln_.children)
                    else:
                        kids = [ln_]
                    kids.append(rn)
                    n = GNode(kind, kids, {'op': True}, ln, self.modname)
                    if isinstance(e.op, ast.Sub) or (ln_.kind == 'And' and ln_.data.get('error_stop')):
                        n.data['error_stop'] = True
                    self.nodes += 1
                    return n
            return self.model.fold(self.modname, e, {k: v for k, v in env.items()
                                                     if isinstance(v, (str, int, float))})
        if isinstance(e, ast.Subscript):
            base = self._expr(e.value, env)
            idx = self._expr(e.slice, env)
            if isinstance(base, Family):
                return self._instantiate(base, idx)
            if isinstance(base, NearestMap):
                k = self._key(idx)
                if k in base.mapping:
                    return base.mapping[k]
                return Opaque('NearestMap[%r]' % (idx,))
            return Opaque('subscript of %s' % type(base).__name__)
        if isinstance(e, ast.Call):
            return self._call(e, env)
        if isinstance(e, ast.Attribute):
            lib = LIBRARY_ELEMENTS.get(norm(e))
            if lib is not None:
                # a ready-made element of the pyparsing library: modelled by the regular expression of its Word(...)
                # definition (library fact, pyparsing 3.x)
                self.nodes += 1
                return GNode('Regex', data={'pattern': lib, 'flags': 0, 'library': norm(e)}, lineno=getattr(e, 'lineno', None),
                             mod=self.modname)
            return self.model.fold(self.modname, e)
        if isinstance(e, (ast.ListComp, ast.GeneratorExp, ast.JoinedStr)):
            return self.model.fold(self.modname, e)
        return Opaque(type(e).__name__)

    @staticmethod
    def _key(v):
        if isinstance(v, VersionConst):
            return v.s
        return v

    def _instantiate(self, fam, idx):
        k = self._key(idx)
        if k in fam.cache:
            return fam.cache[k]
        cl = fam.closure
        params = [a.arg for a in cl.node.args.args]
        env = dict(cl.env)
        if params:
            env[params[0]] = idx
        node = self._expr(cl.node.body, env)
        if isinstance(node, GNode):
            if node.var is None:
                node.var = '%s[%s]' % (fam.var, k)
            node.data['family'] = fam.var
            node.data['ver'] = k
        fam.cache[k] = node
        return node

    def _call(self, e, env):
        ln = e.lineno
        f = e.func
        # method calls on grammar nodes
        if isinstance(f, ast.Attribute):
            base = self._expr(f.value, env)
            if isinstance(base, GNode):
                return self._method(base, f.attr, e, env)
            if isinstance(base, Opaque) and norm(f.value).split('.')[0] in ('pp', 'pyparsing'):
                return Opaque('pyparsing call %s' % norm(f))
        fn = self._expr(f, env) if isinstance(f, ast.Name) else None
        if isinstance(f, ast.Name) and f.id == 'GenerateMatch' and len(e.args) == 1:
            cl = self._expr(e.args[0], env)
            if isinstance(cl, Closure):
                return Family(cl)
            return Opaque('GenerateMatch(non-lambda)')
        if isinstance(f, ast.Name) and f.id == 'NearestMatch' and len(e.args) == 1:
            d = self._expr(e.args[0], env)
            if isinstance(d, dict):
                return NearestMap(d)
            return Opaque('NearestMatch(non-dict)')
        if isinstance(fn, Wrapper):
            return self._build(fn, e, env)
        if isinstance(f, ast.Attribute) and norm(f.value) in ('pp', 'pyparsing') and f.attr in PP_KINDS:
            return self._build(Wrapper(f.attr, False), e, env)
        return self.model.fold(self.modname, e, {k: v for k, v in env.items() if isinstance(v, (str, int, float))})

    def _build(self, w, e, env):
        ln = e.lineno
        args = [self._expr(a, env) for a in e.args]
        kw = {k.arg: self._expr(k.value, env) for k in e.keywords}
        kind = w.kind
        node = None
        if kind == 'Regex':
            pat = args[0] if args else kw.get('pattern')
            flags = args[1] if len(args) > 1 else kw.get('flags', 0)
            if isinstance(pat, str) and isinstance(flags, int):
                node = GNode('Regex', data={'pattern': pat, 'flags': flags}, lineno=ln, mod=self.modname)
        elif kind in ('Literal', 'CaselessLiteral', 'Keyword', 'CaselessKeyword'):
            s = args[0] if args else kw.get('match_string', kw.get('matchString'))
            if isinstance(s, str):
                node = GNode('CaselessLiteral' if kind.startswith('Caseless') else 'Literal',
                             data={'s': s, 'keyword': 'Keyword' in kind}, lineno=ln, mod=self.modname)
        elif kind == 'Word':
            init = args[0] if args else kw.get('init_chars', kw.get('initChars'))
            body = args[1] if len(args) > 1 else kw.get('body_chars', kw.get('bodyChars'))
            mn = kw.get('min', 1)
            mx = kw.get('max', 0)
            ex = kw.get('exact', 0)
            if len(args) > 2:
                mn = args[2]
            if isinstance(init, str) and (body is None or isinstance(body, str)) and all(
                    isinstance(x, int) for x in (mn, mx, ex)):
                if ex:
                    mn = mx = ex
                node = GNode('Word', data={'init': init, 'body': body if body is not None else init,
                                           'min': mn, 'max': mx or None}, lineno=ln, mod=self.modname)
        elif kind == 'Empty':
            node = GNode('Empty', lineno=ln, mod=self.modname)
        elif kind in ('And', 'Or', 'MatchFirst'):
            items = args[0] if args else kw.get('exprs')
            if isinstance(items, list):
                kids = [self._as_node(x, ln) for x in items]
                if all(k is not None for k in kids):
                    node = GNode(kind, kids, lineno=ln, mod=self.modname)
        elif kind in ('Optional', 'Opt', 'ZeroOrMore', 'OneOrMore', 'Combine', 'Suppress', 'Group'):
            inner = self._as_node(args[0] if args else kw.get('expr'), ln)
            if inner is not None:
                node = GNode('Optional' if kind == 'Opt' else kind, [inner], lineno=ln, mod=self.modname)
                if kind == 'Combine':
                    adj = kw.get('adjacent', True)
                    node.data['adjacent'] = adj
        elif kind == 'Forward':
            node = GNode('Forward', lineno=ln, mod=self.modname)
        elif kind in ('delimitedList', 'DelimitedList'):
            inner = self._as_node(args[0] if args else kw.get('expr'), ln)
            delim = kw.get('delim', args[1] if len(args) > 1 else ',')
            dn = self._as_node(delim, ln)
            if inner is not None and dn is not None:
                node = GNode('DelimitedList', [inner, dn], lineno=ln, mod=self.modname)
                node.data['combine'] = kw.get('combine', False)
                node.data['allow_trailing'] = kw.get('allow_trailing_delim', False)
        if node is None:
            self.opaque.append('%s(...) at line %s' % (kind, ln))
            node = GNode('Opaque', data={'why': '%s(%s)' % (kind, ', '.join(norm(a) for a in e.args))},
                         lineno=ln, mod=self.modname)
        self.nodes += 1
        if kind == 'Combine' and node.data.get('adjacent', True) is not False:
            node.set_leave_ws(True)
            node.leave_ws = False   # the Combine itself still skips leading whitespace
        if w.leave_ws:
            node.set_leave_ws(True)
        return node

    def _method(self, base, attr, e, env):
        if attr in ('setParseAction', 'set_parse_action', 'addParseAction', 'add_parse_action'):
            if e.args:
                a = self._expr(e.args[0], env)
                if isinstance(a, (Closure, FuncRef)):
                    base.action = a
                else:
                    base.action = Opaque('parse action %s' % norm(e.args[0]))
            return base
        if attr in ('setName', 'set_name'):
            if e.args:
                v = self._expr(e.args[0], env)
                if isinstance(v, str):
                    base.name = v
            return base
        if attr == 'copy':
            n = base.clone()
            n.var = None
            self.nodes += 1
            return n
        if attr in ('leaveWhitespace', 'leave_whitespace'):
            base.set_leave_ws(True)
            return base
        if attr == 'suppress':
            n = GNode('Suppress', [base], lineno=e.lineno, mod=self.modname)
            self.nodes += 1
            return n
        if attr in ('setResultsName', 'set_results_name', 'setDebug', 'set_debug', 'streamline'):
            return base
        return Opaque('method %s on grammar node' % attr)

    # ------------------------------------------------------------------ access
    def get(self, name):
        v = self.env.get(name)
        if v is None:
            raise AnalysisError('anchor vanished: grammar element %s in hszinc/%s.py' % (name, self.modname))
        if isinstance(v, Opaque):
            raise AnalysisError('grammar element %s is opaque: %s' % (name, v.why))
        return v

    def fam(self, name, ver):
        f = self.get(name)
        if not isinstance(f, Family):
            raise AnalysisError('%s is not a GenerateMatch family' % name)
        return self._instantiate(f, VersionConst(ver))

    def named_elements(self):
        return {k: v for k, v in self.env.items() if isinstance(v, (GNode, Family, NearestMap))}


_GRAMMARS = {}


def grammar_of(model, modname):
    key = (id(model), modname)
    if key not in _GRAMMARS:
        _GRAMMARS[key] = Grammar(model, modname)
    return _GRAMMARS[key]


# ----------------------------------------------------------------------------------
# grammar node -> Rx
# ----------------------------------------------------------------------------------

def alternatives(node):
    """Top-level alternatives of an Or / MatchFirst (through Forward)."""
    n = node
    while n.kind == 'Forward' and n.content is not None:
        n = n.content
    if n.kind in ('Or', 'MatchFirst'):
        return n.kind, list(n.children)
    return None, [n]


class ToRx(object):
    """Translate a grammar node to a regular expression over code points and nonterminal symbols.

    nonterminals: dict GNode.id -> symbol (Forward nodes kept abstract)."""

    def __init__(self, nonterminals=None, max_depth=40):
        self.nt = nonterminals or {}
        self.max_depth = max_depth
        self.stack = []

    def rx(self, node, depth=0):
        if node.id in self.nt:
            return self._ws(node, L.rsym(self.nt[node.id]))
        if depth > self.max_depth or node.id in self.stack:
            raise Unsupported('recursive grammar element %s has no nonterminal symbol' % node.label())
        self.stack.append(node.id)
        try:
            r = self._rx(node, depth)
        finally:
            self.stack.pop()
        return r

    def _ws(self, node, r):
        if node.leave_ws:
            return r
        return L.rcat(L.rstar(L.rset(WS)), r)

    def _rx(self, node, depth):
        k = node.kind
        d = node.data
        kids = node.children
        if k == 'Regex':
            pr = L.PyRegex(d['pattern'], d.get('flags', 0))
            if pr.anchored_start or pr.anchored_end or pr.lookbehind is not None:
                raise Unsupported('anchored pyparsing Regex %r' % d['pattern'])
            return self._ws(node, pr.body)
        if k == 'Literal':
            return self._ws(node, L.rlit(d['s']))
        if k == 'CaselessLiteral':
            return self._ws(node, L.rlit_caseless(d['s']))
        if k == 'Word':
            init = L.rset(L.iv_chars(d['init']))
            body = L.rset(L.iv_chars(d['body']))
            mn = d['min']
            mx = d['max']
            if mn < 1:
                raise Unsupported('Word(min=%d)' % mn)
            r = L.rcat(init, L.rrepeat(body, mn - 1, None if mx is None else mx - 1))
            return self._ws(node, r)
        if k == 'Empty':
            return L.EPS
        if k == 'And':
            return L.rcat(*[self.rx(c, depth + 1) for c in kids])
        if k in ('Or', 'MatchFirst'):
            return L.ralt(*[self.rx(c, depth + 1) for c in kids])
        if k == 'Optional':
            return L.ropt(self.rx(kids[0], depth + 1))
        if k == 'ZeroOrMore':
            return L.rstar(self.rx(kids[0], depth + 1))
        if k == 'OneOrMore':
            return L.rplus(self.rx(kids[0], depth + 1))
        if k in ('Combine', 'Suppress', 'Group'):
            inner = self.rx(kids[0], depth + 1)
            if k == 'Combine':
                return self._ws(node, inner)
            return inner
        if k == 'DelimitedList':
            x = self.rx(kids[0], depth + 1)
            dl = self.rx(kids[1], depth + 1)
            r = L.rcat(x, L.rstar(L.rcat(dl, x)))
            if d.get('allow_trailing'):
                r = L.rcat(r, L.ropt(dl))
            return r
        if k == 'Forward':
            if node.content is None:
                raise Unsupported('Forward %s was never assigned' % node.label())
            return self.rx(node.content, depth + 1)
        if k == 'Opaque':
            raise Unsupported('opaque grammar element (%s) at line %s' % (d.get('why'), node.lineno))
        raise Unsupported('grammar node kind %s' % k)


def walk(node, seen=None):
    seen = seen if seen is not None else set()
    if node.id in seen:
        return
    seen.add(node.id)
    yield node
    for c in node.children:
        if isinstance(c, GNode):
            for x in walk(c, seen):
                yield x


# ----------------------------------------------------------------------------------
# parse-action classification
# ----------------------------------------------------------------------------------

CTOR_KINDS = {'Coordinate': 'Coordinate', 'Quantity': 'Quantity', 'Uri': 'Uri', 'Ref': 'Ref', 'Bin': 'Bin',
              'XStr': 'XStr', 'float': 'float', 'int': 'int', 'FilterPath': 'FilterPath',
              'FilterBinary': 'FilterBinary', 'FilterUnary': 'FilterUnary', 'SortableDict': 'SortableDict',
              'Grid': 'Grid', 'tuple': 'tuple', '_unescape': 'str', 'str': 'str', 'bool': 'bool'}
SINGLETONS = {'MARKER': 'MARKER', 'NA': 'NA', 'REMOVE': 'REMOVE'}


class _RenameParam(ast.NodeTransformer):
    def __init__(self, old, new):
        self.old, self.new = old, new

    def visit_Name(self, node):
        if node.id == self.old:
            return ast.copy_location(ast.Name(id=self.new, ctx=node.ctx), node)
        return node


def action_returns(action):
    """List of returned expressions (ast) of a parse action; the (single) parameter of a lambda action is
    renamed to `toks`, so that renaming it in the source does not matter."""
    if isinstance(action, Closure):
        body = action.node.body
        params = [a.arg for a in action.node.args.args]
        if len(params) == 1 and params[0] != 'toks':
            import copy
            body = _RenameParam(params[0], 'toks').visit(copy.deepcopy(body))
        return [body]
    if isinstance(action, FuncRef):
        return [n.value for n in ast.walk(action.node) if isinstance(n, ast.Return) and n.value is not None]
    return []


def classify_expr(x, local_defs=None):
    """Kind built by an action's returned expression (after stripping a one-element list)."""
    if isinstance(x, ast.List) and len(x.elts) == 1:
        x = x.elts[0]
    if isinstance(x, ast.Constant):
        if x.value is None:
            return 'None'
        return type(x.value).__name__
    if isinstance(x, ast.Name):
        if x.id in SINGLETONS:
            return SINGLETONS[x.id]
        if local_defs and x.id in local_defs:
            return classify_expr(local_defs[x.id], None)
        return 'name:%s' % x.id
    if isinstance(x, ast.Compare):
        return 'bool'
    if isinstance(x, ast.UnaryOp) and isinstance(x.op, ast.USub):
        return classify_expr(x.operand, local_defs)
    if isinstance(x, ast.IfExp):
        a = classify_expr(x.body, local_defs)
        b = classify_expr(x.orelse, local_defs)
        return a if a == b else '%s|%s' % (a, b)
    if isinstance(x, ast.Call):
        f = x.func
        if isinstance(f, ast.Name):
            if f.id in CTOR_KINDS:
                return CTOR_KINDS[f.id]
            return 'call:%s' % f.id
        if isinstance(f, ast.Attribute):
            if f.attr == 'date':
                return 'date'
            if f.attr == 'time':
                return 'time'
            if f.attr in ('parse_date',):
                return 'datetime'
            if f.attr in ('astimezone', 'localise', 'localize'):
                return 'datetime'
            if f.attr in ('asList', 'as_list'):
                return 'list'
            if f.attr == 'strptime':
                return 'datetime'
            return 'call:.%s' % f.attr
    if isinstance(x, ast.Subscript):
        return 'token'
    return 'expr:%s' % type(x).__name__


def action_kind(node):
    """Python kind(s) that the element's parse action yields ('token' = the matched text)."""
    a = node.action
    if a is None:
        if node.kind in ('Regex', 'Literal', 'CaselessLiteral', 'Word', 'Combine'):
            return {'token'}
        return {'passthrough'}
    if isinstance(a, Opaque):
        return {'opaque'}
    if isinstance(a, FuncRef):
        if a.name == 'to_dict':
            return {'dict'}
        if a.name == '_gen_grid':
            return {'Grid'}
        local_defs = {}
        for n in ast.walk(a.node):
            if isinstance(n, ast.Assign) and len(n.targets) == 1 and isinstance(n.targets[0], ast.Name):
                local_defs.setdefault(n.targets[0].id, n.value)
    else:
        local_defs = None
    kinds = set()
    for r in action_returns(a):
        for k in classify_expr(r, local_defs).split('|'):
            kinds.add(k)
    return kinds


def built_kinds(node, _seen=None):
    """Kinds of python values an element contributes to the token list (through passthrough
    composites, Forward excluded)."""
    _seen = _seen or set()
    if node.id in _seen:
        return set()
    _seen.add(node.id)
    ks = action_kind(node)
    if ks == {'passthrough'} or (node.action is None and node.kind in ('Combine',) and False):
        out = set()
        if node.kind == 'Suppress':
            return set()
        if node.kind == 'Forward':
            return {'forward:%s' % node.label()}
        for c in node.children:
            if node.kind == 'DelimitedList' and c is node.children[1]:
                continue
            out |= built_kinds(c, _seen)
        return out
    if 'token' in ks and len(ks) > 1:
        ks = ks - {'token'}
    return ks


# ----------------------------------------------------------------------------------
# PEG re-validation: pyparsing's commitment semantics on the *model*, for concrete witness strings
# ----------------------------------------------------------------------------------

class Peg(object):
    """Interpreter of the extracted grammar graph under pyparsing's matching discipline: every element
    yields at most one match (Regex: python's own leftmost match; Or: longest, list order on ties;
    MatchFirst: first; repeats greedy; no back-tracking into a completed element)."""

    WSCHARS = ' \t\n\r'

    def __init__(self, max_depth=60):
        self.max_depth = max_depth
        self._re = {}

    def match(self, node, s, pos=0, depth=0):
        """end position of the match of `node` at `pos`, or None"""
        if depth > self.max_depth:
            return None
        if not node.leave_ws and node.kind not in ('And', 'Or', 'MatchFirst', 'Optional', 'ZeroOrMore', 'OneOrMore',
                                                    'Suppress', 'Group', 'Forward', 'DelimitedList', 'Empty'):
            while pos < len(s) and s[pos] in self.WSCHARS:
                pos += 1
        k = node.kind
        d = node.data
        if k == 'Regex':
            import re as _re
            key = (d['pattern'], d.get('flags', 0))
            if key not in self._re:
                self._re[key] = _re.compile(*key)
            mo = self._re[key].match(s, pos)
            return mo.end() if mo else None
        if k == 'Literal':
            return pos + len(d['s']) if s.startswith(d['s'], pos) else None
        if k == 'CaselessLiteral':
            return pos + len(d['s']) if s[pos:pos + len(d['s'])].upper() == d['s'].upper() else None
        if k == 'Word':
            if pos >= len(s) or s[pos] not in d['init']:
                return None
            end = pos + 1
            mx = d['max']
            while end < len(s) and s[end] in d['body'] and (mx is None or end - pos < mx):
                end += 1
            if end - pos < d['min']:
                return None
            return end
        if k == 'Empty':
            return pos
        if k == 'And':
            for c in node.children:
                pos = self.match(c, s, pos, depth + 1)
                if pos is None:
                    return None
            return pos
        if k == 'Or':
            best = None
            for c in node.children:
                e = self.match(c, s, pos, depth + 1)
                if e is not None and (best is None or e > best):
                    best = e
            return best
        if k == 'MatchFirst':
            for c in node.children:
                e = self.match(c, s, pos, depth + 1)
                if e is not None:
                    return e
            return None
        if k == 'Optional':
            e = self.match(node.children[0], s, pos, depth + 1)
            return pos if e is None else e
        if k in ('ZeroOrMore', 'OneOrMore'):
            n = 0
            while True:
                e = self.match(node.children[0], s, pos, depth + 1)
                if e is None or e == pos:
                    break
                pos = e
                n += 1
            if k == 'OneOrMore' and n == 0:
                return None
            return pos
        if k in ('Combine', 'Suppress', 'Group'):
            return self.match(node.children[0], s, pos, depth + 1)
        if k == 'DelimitedList':
            e = self.match(node.children[0], s, pos, depth + 1)
            if e is None:
                return None
            pos = e
            while True:
                e1 = self.match(node.children[1], s, pos, depth + 1)
                if e1 is None:
                    break
                e2 = self.match(node.children[0], s, e1, depth + 1)
                if e2 is None:
                    break
                pos = e2
            return pos
        if k == 'Forward':
            if node.content is None:
                return None
            return self.match(node.content, s, pos, depth + 1)
        return None

    def winner(self, alts, or_kind, s):
        """index of the alternative pyparsing selects for the text `s` at position 0, and its end."""
        best = None
        for i, a in enumerate(alts):
            e = self.match(a, s, 0)
            if e is None:
                continue
            if or_kind == 'MatchFirst':
                return i, e
            if best is None or e > best[1]:
                best = (i, e)
        return best if best else (None, None)


# ---------------------------------------------------------------- token use in parse actions

def token_use(grammar):
    """For every lambda parse action that indexes its token list with integer constants: the set of indices each branch
    of the action uses (conditions on the way included).  A constructor fed from `toks[0], toks[1]` must use every
    token the element yields exactly where it belongs; an index used twice while another is skipped means one field
    got the wrong token.  Yields (node, [(branch text, sorted indices)], max index)."""
    out = []
    seen = set()
    roots = [v for v in grammar.env.values() if isinstance(v, GNode)]
    for fam in [v for v in grammar.env.values() if isinstance(v, Family)]:
        roots.extend(x for x in fam.cache.values() if isinstance(x, GNode))
    todo = []
    seen_nodes = set()
    for r_ in roots:
        for n_ in walk(r_):
            if n_.id not in seen_nodes:
                seen_nodes.add(n_.id)
                todo.append(n_)
    for node in todo:
        act = node.action
        if not isinstance(act, Closure) or id(act) in seen:
            continue
        seen.add(id(act))
        rets = action_returns(act)
        if not rets:
            continue
        body = rets[0]

        def idx(e):
            s = set()
            for x in ast.walk(e):
                if isinstance(x, ast.Subscript) and isinstance(x.value, ast.Name) and x.value.id == 'toks' \
                        and isinstance(x.slice, ast.Constant) and isinstance(x.slice.value, int) and x.slice.value >= 0:
                    s.add(x.slice.value)
            return s

        branches = []

        def visit(e, inherited):
            if isinstance(e, ast.List) and len(e.elts) == 1:
                return visit(e.elts[0], inherited)
            if isinstance(e, ast.IfExp):
                optional = any(isinstance(c, ast.Call) and norm(c.func) == 'len' for c in ast.walk(e.test))
                cond = idx(e.test)
                if optional:
                    # a token that may be absent: both arms are judged as one branch using what the longer arm uses
                    branches.append((norm(e)[:70], sorted(inherited | idx(e))))
                    return
                visit(e.body, inherited | cond)
                visit(e.orelse, inherited | cond)
                return
            # an optional-token conditional nested as an argument
            branches.append((norm(e)[:70], sorted(inherited | idx(e))))

        visit(body, set())
        allidx = idx(body)
        multi = any(isinstance(c, ast.Call) and sum(1 for a in list(c.args) + [k.value for k in c.keywords] if idx(a)) >= 2
                    for c in ast.walk(body))
        if len(allidx) >= 2 or (allidx and max(allidx) >= 1) or multi:
            out.append((node, branches, max(allidx)))
    return out
