"""Decision tables: functions (or statement lists) that touch their inputs only through
comparisons are finite decision trees over the *orderings* of those inputs.  This module
extracts the tree from the AST and enumerates it over representatives of the ordering
classes.  Anything that is not a comparison skeleton raises Unsupported."""
from __future__ import annotations

import ast

from .lang import Unsupported
from .model import norm


class Raises(Exception):
    def __init__(self, name):
        self.name = name


class IdentityOfValues(Exception):
    """`a is b` / `a is not b` where neither side is a singleton (None/True/False): the outcome depends on object
    identity (interning, caching), not on the values -- not a function of the inputs of the decision table"""

    def __init__(self, text):
        Exception.__init__(self, text)
        self.text = text


STR_METHODS = ('lower', 'upper', 'casefold', 'strip', 'lstrip', 'rstrip', 'title', 'swapcase', 'capitalize')


def eval_atom(e, val, alias=None):
    """concrete value of an atom: constant, input (through alias), len()/str() of one, a case/strip method of a string"""
    alias = alias or {}
    if isinstance(e, ast.Call) and isinstance(e.func, ast.Attribute) and e.func.attr in STR_METHODS and not e.args \
            and not e.keywords:
        base = eval_atom(e.func.value, val, alias)
        if base is None:
            raise Raises('AttributeError')
        if isinstance(base, str):
            return getattr(base, e.func.attr)()
        raise Unsupported('method %s on a non-string input' % e.func.attr)
    if isinstance(e, ast.Constant):
        return e.value
    if isinstance(e, ast.UnaryOp) and isinstance(e.op, ast.USub) and isinstance(e.operand, ast.Constant):
        return -e.operand.value
    t = norm(e)
    t = alias.get(t, t)
    if t in val:
        return val[t]
    if isinstance(e, ast.Call) and norm(e.func) == 'len' and len(e.args) == 1:
        return len(eval_atom(e.args[0], val, alias))
    if isinstance(e, ast.Call) and norm(e.func) == 'str' and len(e.args) == 1:
        return str(eval_atom(e.args[0], val, alias))
    raise Unsupported('atom %r is not an input of the decision table' % t)


def cond(test, val, alias=None):
    """Evaluate a boolean test whose atoms are names/attributes bound in `val`."""
    alias = alias or {}

    def atom(e):
        return eval_atom(e, val, alias)

    def ev(e):
        if isinstance(e, ast.BoolOp):
            if isinstance(e.op, ast.And):
                r = True
                for v in e.values:
                    r = ev(v)
                    if not r:
                        return r
                return r
            r = False
            for v in e.values:
                r = ev(v)
                if r:
                    return r
            return r
        if isinstance(e, ast.UnaryOp) and isinstance(e.op, ast.Not):
            return not ev(e.operand)
        if isinstance(e, ast.Compare):
            left = atom(e.left)
            for op, right_e in zip(e.ops, e.comparators):
                right = atom(right_e)
                try:
                    if isinstance(op, ast.Lt):
                        r = left < right
                    elif isinstance(op, ast.LtE):
                        r = left <= right
                    elif isinstance(op, ast.Gt):
                        r = left > right
                    elif isinstance(op, ast.GtE):
                        r = left >= right
                    elif isinstance(op, ast.Eq):
                        r = left == right
                    elif isinstance(op, ast.NotEq):
                        r = left != right
                    elif isinstance(op, (ast.Is, ast.IsNot)):
                        singles = (None, True, False)
                        if not (any(left is s_ for s_ in singles) or any(right is s_ for s_ in singles)):
                            raise IdentityOfValues(norm(e))
                        r = (left is right) if isinstance(op, ast.Is) else (left is not right)
                    elif isinstance(op, ast.In):
                        r = left in right
                    elif isinstance(op, ast.NotIn):
                        r = left not in right
                    else:
                        raise Unsupported('comparison operator %s' % type(op).__name__)
                except TypeError:
                    raise Raises('TypeError')
                if not r:
                    return False
                left = right
            return True
        return bool(atom(e))

    return ev(test)


def decide(body, val, alias=None):
    """Outcome of a statement list of if/return/raise/pass/continue/break:
    ('return', value) | ('raise', name) | ('fall',) | ('continue',) | ('break',)."""
    for st in body:
        if isinstance(st, ast.If):
            try:
                c = cond(st.test, val, alias)
            except Raises as r:
                return ('raise', r.name)
            out = decide(st.body if c else st.orelse, val, alias)
            if out != ('fall',):
                return out
            continue
        if isinstance(st, ast.Return):
            if st.value is None:
                return ('return', None)
            v = st.value
            if isinstance(v, ast.Constant):
                return ('return', v.value)
            if isinstance(v, ast.UnaryOp) and isinstance(v.op, ast.USub) and isinstance(v.operand, ast.Constant):
                return ('return', -v.operand.value)
            if isinstance(v, (ast.Compare, ast.BoolOp)) or \
                    (isinstance(v, ast.UnaryOp) and isinstance(v.op, ast.Not)):
                try:
                    return ('return', cond(v, val, alias))
                except Raises as r:
                    return ('raise', r.name)
            t = alias.get(norm(v), norm(v)) if alias else norm(v)
            if t in val:
                return ('return', val[t])
            return ('return-expr', norm(v))
        if isinstance(st, ast.Raise):
            exc = st.exc
            return ('raise', norm(exc.func) if isinstance(exc, ast.Call) else norm(exc))
        if isinstance(st, ast.Pass):
            continue
        if isinstance(st, ast.Continue):
            return ('continue',)
        if isinstance(st, ast.Break):
            return ('break',)
        if isinstance(st, ast.Expr) and isinstance(st.value, ast.Constant):
            continue
        if isinstance(st, ast.Assign) and len(st.targets) == 1 and isinstance(st.targets[0], ast.Name):
            # a local holding (a case/strip transform of) an input
            try:
                val[st.targets[0].id] = eval_atom(st.value, val, alias)
            except Raises as r:
                return ('raise', r.name)
            continue
        raise Unsupported('statement %r is not part of a comparison skeleton' % norm(st).split('\n')[0])
    return ('fall',)
