"""Self-test of the language engine against python's own `re` (engine validation only)."""
import random, re, sys, time
sys.path.insert(0, '/verif')
from hsverify import lang as L

PATS = [
    (r'^n:(-?\d+(:?\.\d+)?(:?[eE][+\-]?\d+)?)(:? (.*))?$', 0),
    (r'^r:([a-zA-Z0-9_:\-.~]+)(:? (.*))?$', 0),
    (r'u:(.+)$', 0),
    (r"([^\x00-\x1f\\\"]|\\[bfnrt\\\"$]|\\[uU][0-9a-fA-F]{4})*", 0),
    (r'c:(-?\d*\.?\d*),(-?\d*\.?\d*)$', 0),
    (r'^h:(\d{2}):(\d{2})(:?:(\d{2}(:?\.\d+)?))?$', 0),
    (r'[a-z][a-zA-Z0-9_]*', 0),
    (r' *, *', 0),
]
ALPH = 'n:r u-0123.eE+ abz_\\"$\n\x01,c:hé٣'
rnd = random.Random(1)
t0 = time.time()
n = 0
for pat, fl in PATS:
    rx = L.from_pyregex(pat, fl)
    nfa = L.build(rx)
    cre = re.compile(pat, fl)
    for _ in range(3000):
        s = ''.join(rnd.choice(ALPH) for _ in range(rnd.randint(0, 9)))
        want = cre.fullmatch(s) is not None
        # python's $ also matches before a trailing newline; our full() language is strict
        if s.endswith('\n') and pat.endswith('$'):
            continue
        got = L.accepts(nfa, s)
        assert want == got, (pat, s, want, got)
        n += 1
# inclusion
a = L.from_pyregex(r'"([^\x00-\x1f\\"]|\\[bfnrt\\"$])*"')
b = L.from_pyregex(r'"([^\x00-\x1f\\"]|\\[bfnrt\\"$]|\\u[0-9a-f]{4})*"')
assert L.included(a, b)
w = L.find_not_included(b, a)
assert w and L.render(w[0]) == '"\\u0000"', L.render(w[0])
any_str = L.rcat(L.rlit('"'), L.rany_star(), L.rlit('"'))
w = L.find_not_included(any_str, b)
print('witness', repr(L.render(w[0])))
assert L.find_common(L.from_pyregex(r'N'), L.from_pyregex('NA|NaN')) is None
assert L.render(L.find_common(L.from_pyregex(r'N[A-Z]*'), L.from_pyregex('NA|NaN'))) == 'NA'
assert L.min_length(L.from_pyregex(r'ab{2,3}c?')) == 3
# match_lang / truncation
pr = L.PyRegex(r'u:(.+)$', re.M)
dom = L.rcat(L.rlit('u:'), L.rany_star())
w = L.find_not_included(dom, pr.full())
print('not fully matched:', [repr(L.render(x)) for x in w])
w = L.find_common(dom, pr.truncating_lang())
print('truncated:', repr(L.render(w)))
# markers
pm = L.PyRegex(r'^r:([a-zA-Z0-9_:\-.~]+)(:? (.*))?$', re.M, mark_groups=(1, 3))
print(L.render(L.shortest(pm.full(marked=True))))
print('tests', n, 'time %.2f' % (time.time() - t0))
