"""Self-test of the checkers over the sensitivity controls in hsverify/controls.py.
usage: mutants.py [Cxx ...]"""
import os
import sys

HERE = os.path.dirname(os.path.abspath(__file__))
sys.path.insert(0, os.path.dirname(HERE))
import check  # noqa: E402
from hsverify import controls, model  # noqa: E402

M = controls.M


def run(selected):
    base_cache = {}
    fails = 0
    total = 0
    for prop, module, old, new, expect, rule, name in M:
        if selected and prop not in selected:
            continue
        total += 1
        m = model.Model()
        text = m.mod(module).text
        label = name or (old.strip().split('\n')[0][:50] + ' -> ' + new.strip().split('\n')[0][:40])
        if old not in text:
            print('SKIP  %s %s: pattern not in current source: %s' % (prop, module, label))
            continue
        if prop not in base_cache:
            ctx, _, _ = check.run_property(prop, 'quick', 0)
            base_cache[prop] = ({f.key() for f in ctx.findings}, len(ctx.errors))
        base_keys, base_err = base_cache[prop]
        ctx, _, _ = check.run_property(prop, 'quick', 0, overrides={module: text.replace(old, new, 1)})
        newf = [f for f in ctx.findings if f.key() not in base_keys]
        if rule:
            newf_r = [f for f in newf if f.rule == rule]
        else:
            newf_r = newf
        if expect == 'V':
            ok = bool(newf_r)
        else:
            ok = not newf and len(ctx.errors) <= base_err
        status = 'ok   ' if ok else 'FAIL '
        if not ok:
            fails += 1
        detail = ''
        if newf:
            detail = ' -> %s: %s' % (newf[0].rule, (newf[0].witness or '')[:90])
        elif ctx.errors:
            detail = ' -> ERROR %s' % ctx.errors[0]['error'][:110]
        print('%s%s [%s] %s%s' % (status, prop, expect, label, detail))
    print('%d mutants, %d failures' % (total, fails))
    return 1 if fails else 0


if __name__ == '__main__':
    sys.exit(run(set(a.upper() for a in sys.argv[1:])))
