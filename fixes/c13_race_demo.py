"""Demonstration for the C13 fix (not part of the static checks): forces the schedule
A:read counter . B:compile whole filter . A:increment,exec  by hooking the debug print that sits
between the read and the increment.  Before the fix both filters get the same generated name and the
first thread's function is replaced; after the fix names are allocated under a lock."""
import builtins
import sys
import threading

import hszinc
from hszinc import grid_filter as gf

g = hszinc.Grid(columns={'id': {}, 'a': {}, 'b': {}})
g.append({'id': 'r1', 'a': 1})
g.append({'id': 'r2', 'b': 1})

state = {'first': True}
results = {}
orig_print = builtins.print


def hooked_print(*a, **k):
    if state['first']:
        state['first'] = False
        t = threading.Thread(target=lambda: results.__setitem__('B', gf.filter_function('b')))
        t.start()
        t.join()


gf.print = hooked_print
fa = gf.filter_function('a')
fb = results['B']
ra = [r['id'] for r in g if fa(g, r)]
rb = [r['id'] for r in g if fb(g, r)]
print('filter a ->', ra, ' filter b ->', rb, ' names:', fa.__name__, fb.__name__)
ok = ra == ['r1'] and rb == ['r2'] and fa.__name__ != fb.__name__
# what later lookups by name (the path Grid.filter takes) return
ra2 = [r['id'] for r in g.filter('a')]
rb2 = [r['id'] for r in g.filter('b')]
print('via Grid.filter: a ->', ra2, ' b ->', rb2)
ok = ok and ra2 == ['r1'] and rb2 == ['r2']
print('OK' if ok else 'RACE: two filters share one generated function name')
sys.exit(0 if ok else 1)
