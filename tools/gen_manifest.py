#!/venv/bin/python
"""Regenerate /verif/MANIFEST.json from the rule modules' META (run after adding a property)."""
import importlib
import json
import os
import sys

HERE = os.path.dirname(os.path.dirname(os.path.abspath(__file__)))
sys.path.insert(0, HERE)

TECH = {
    'C01': 'grammar/table extraction + regular-language inclusion (writer templates vs reader grammar), escape transducer pairing',
    'C02': 'regular-language inclusion with capture markers (writer templates vs decode cascade)',
    'C03': 'spec-language inclusion into the extracted pyparsing grammar; framing regex transducers',
    'C04': 'writer-template language inclusion into a spec grammar independent of the reader',
    'C05': 'spec-spelling inclusion into the decode cascade; freshness/effect analysis of the input object',
    'C06': 'writer-template language inclusion into the JSON spec; document-shape AST rules',
    'C07': 'purity/effect analysis of the dumpers; version-gate agreement; reader-kinds subset of writer-kinds',
    'C08': 'escape homomorphism vs reader token/unescape tables over all code points; position routing via call graph',
    'C09': 'exception-escape analysis of the parse wrappers; grammar envelope inclusion',
    'C10': 'gate coverage matrix (kinds x sites) + must-precede of validation on every entry path',
    'C11': 'structure of the filter compiler: fold shape, precedence, operator tables, literal resolvability',
    'C12': 'taint analysis from grammar terminals to exec with repr-closedness of literal classes',
    'C13': 'lockset/atomicity analysis of shared read-modify-write on the filter path',
    'C14': 'delegation conformance + must-precede + nullness analysis of Grid primitives',
    'C15': 'inductive representation-invariant (pairing) analysis of the id index',
    'C16': 'path enumeration of add_item against the documented semantics; delegation normal forms',
    'C17': 'AST rules on zone-map construction, conversion API use and exception discipline of timezone_name',
    'C18': 'operator-threshold table + decision-table enumeration of _cmp over ordering classes',
    'C19': 'class-level eq/ne/hash rules; type-guard dominance in Grid._approx_check',
    'C20': 'normal-form conformance of operator methods with the Python data model table',
}


def main():
    props = [json.loads(l) for l in open(os.path.join(HERE, 'properties.jsonl'))]
    checks = []
    na = []
    for p in props:
        pid = p['id']
        try:
            mod = importlib.import_module('hsverify.rules.%s' % pid.lower())
        except ModuleNotFoundError:
            na.append({'property_id': pid, 'reason': 'check not built yet (see DESIGN.md section 3 for the plan)'})
            continue
        meta = mod.META
        if meta.get('not_applicable'):
            na.append({'property_id': pid, 'reason': meta['not_applicable']})
            continue
        checks.append({
            'property_id': pid,
            'quick_cmd': '/venv/bin/python check.py %s --tier quick' % pid,
            'thorough_cmd': '/venv/bin/python check.py %s --tier thorough' % pid,
            'evidence_file': '/verif/evidence/%s.json' % pid,
            'replay_cmd_template': '/venv/bin/python check.py --replay {path}',
            'engine': 'hsverify',
            'level_claimed': {
                'category': meta['level'],
                'text': meta['explanation'],
                'design_ref': 'DESIGN.md section 3, %s' % pid,
            },
            'level_note': 'static analysis of the source; decides the listed clauses, not executions. Trusted: '
                          + '; '.join(meta.get('trusted_base', []) or ['CPython data model']),
            'technique': 'static analysis: ' + TECH[pid],
        })
    man = {
        'version': 1,
        'setup_cmd': '/venv/bin/python -m compileall -q hsverify check.py',
        'hooks': {
            'guard': 'HSZINC_VERIF',
            'enable': 'none needed: the checks read the source tree, no instrumentation is compiled in',
            'baseline_off_cmd': 'cd /repo && /venv/bin/python -m pytest -ra -q -p no:cacheprovider --timeout=900 '
                                '--continue-on-collection-errors',
            'source_commits': [],
            'add_only': True,
        },
        'engines': [{
            'name': 'hsverify', 'path': '/verif/hsverify',
            'serves_properties': [c['property_id'] for c in checks],
            'kind_free_text': 'stdlib-only static analysers over the AST of /repo/hszinc: source model, regular-language '
                              'engine, pyparsing-grammar extractor, writer-template interpreter, path enumeration, '
                              'normal-form conformance',
        }],
        'checks': checks,
        'not_applicable': na,
        'notes': 'Three outcomes per check: exit 0 (holds; KNOWN-FINDING lines for listed genuine defects), exit 1 '
                 '(VIOLATION with a derived witness), exit 2 (ANALYSIS-ERROR: the checker cannot decide, never a '
                 'silent pass).  Genuine defects repaired in /repo are listed as fixed in known_findings.json.',
    }
    with open(os.path.join(HERE, 'MANIFEST.json'), 'w') as f:
        json.dump(man, f, indent=1)
    print('MANIFEST.json: %d checks, %d not applicable/not built' % (len(checks), len(na)))


if __name__ == '__main__':
    main()
