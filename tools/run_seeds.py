#!/venv/bin/python
"""run_seeds.py [name ...] -- regression over /verif/seeded/*: each stored change is applied to a scratch copy of
/repo/hszinc (never to /repo), the check of the property it breaks is run against that copy
(HSZINC_REPO=<scratch>), and must exit 1.  Also runs every check on an unmodified scratch copy (must exit 0)."""
import json
import os
import shutil
import subprocess
import sys
import tempfile

VERIF = os.path.dirname(os.path.dirname(os.path.abspath(__file__)))
PY = '/venv/bin/python'


def sh(cmd, cwd=None, env=None):
    p = subprocess.run(cmd, shell=True, cwd=cwd, capture_output=True, text=True, env=env)
    return p.returncode, p.stdout + p.stderr


def main():
    names = sys.argv[1:] or sorted(n for n in os.listdir(os.path.join(VERIF, 'seeded')) if not n.startswith('_'))
    scratch = tempfile.mkdtemp(prefix='seedrun_')
    ev_backup = tempfile.mkdtemp(prefix='evidence_')
    shutil.copytree(os.path.join(VERIF, 'evidence'), os.path.join(ev_backup, 'evidence'))
    fails = 0
    try:
        for name in names:
            d = os.path.join(VERIF, 'seeded', name)
            if not os.path.exists(os.path.join(d, 'patch.diff')):
                continue
            meta = json.load(open(os.path.join(d, 'meta.json')))
            prop = meta['property']
            work = os.path.join(scratch, name)
            os.makedirs(work)
            shutil.copytree('/repo/hszinc', os.path.join(work, 'hszinc'))
            rc, out = sh('git init -q . && git apply %s' % os.path.join(d, 'patch.diff'), cwd=work)
            if rc != 0:
                rc, out = sh('patch -p1 -s < %s' % os.path.join(d, 'patch.diff'), cwd=work)
            if rc != 0:
                print('SKIP %s: patch does not apply to the current tree' % name)
                continue
            env = dict(os.environ, HSZINC_REPO=work)
            rc, out = sh('%s check.py %s' % (PY, prop), cwd=VERIF, env=env)
            first = [l for l in out.split('\n') if l.startswith('  rule=')][:1]
            ok = rc == 1
            fails += 0 if ok else 1
            print('%s %s [%s] exit=%d %s' % ('ok  ' if ok else 'MISS', name, prop, rc, first[0].strip()[:110] if first else ''))
    finally:
        shutil.rmtree(scratch, ignore_errors=True)
        # evidence files were rewritten against scratch copies: restore the ones of the real tree
        shutil.rmtree(os.path.join(VERIF, 'evidence'))
        shutil.copytree(os.path.join(ev_backup, 'evidence'), os.path.join(VERIF, 'evidence'))
        shutil.rmtree(ev_backup, ignore_errors=True)
    print('%d seeded changes, %d missed' % (len(names), fails))
    return 1 if fails else 0


if __name__ == '__main__':
    sys.exit(main())
