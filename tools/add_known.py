#!/venv/bin/python
"""add_known.py <replay.json> "<why not repaired>" -- record a triaged genuine defect in known_findings.json
(never called by the checks; the file is only edited by hand / through this helper)."""
import json
import os
import sys

HERE = os.path.dirname(os.path.dirname(os.path.abspath(__file__)))
rec = json.load(open(sys.argv[1]))
why = sys.argv[2]
extra_props = sys.argv[3].split(',') if len(sys.argv) > 3 else []
p = os.path.join(HERE, 'known_findings.json')
d = json.load(open(p))
for e in d['findings']:
    if e.get('status') == 'known' and (e['rule'], e['construct'], e['stmt']) == (rec['rule'], rec['construct'], rec['stmt']):
        for q in [rec['property']] + extra_props:
            if q not in e['properties']:
                e['properties'].append(q)
        break
else:
    d['findings'].append({
        'status': 'known', 'properties': [rec['property']] + extra_props, 'rule': rec['rule'],
        'construct': rec['construct'], 'stmt': rec['stmt'], 'witness': rec['witness'],
        'what': rec['explanation'], 'why_not_repaired': why,
    })
json.dump(d, open(p, 'w'), indent=1, ensure_ascii=False)
print('recorded', rec['rule'], rec['construct'])
