#!/venv/bin/python
"""eval_batch.py <round-prefix> <name=agent_dir=prop> ...  -- parallel version of eval_seed.py.

Each seed is confirmed in its own scratch git worktree of /repo (demo passes without, fails with the change; test
suite green apart from the 2 known failures), then all 20 checks are run against that scratch tree
(HSZINC_REPO=<scratch>, evidence redirected to a temp dir), and the seed is stored under /verif/seeded/<name>/."""
import json
import os
import shutil
import subprocess
import sys
import tempfile
from concurrent.futures import ThreadPoolExecutor

VERIF = os.path.dirname(os.path.dirname(os.path.abspath(__file__)))
PY = '/venv/bin/python'


def sh(cmd, cwd=None, env=None, timeout=1800):
    p = subprocess.run(cmd, shell=True, cwd=cwd, capture_output=True, text=True, timeout=timeout, env=env)
    return p.returncode, (p.stdout + p.stderr)


def one(spec):
    name, agent_dir, prop = spec.split('=')
    patch = os.path.join(agent_dir, 'patch.diff')
    demo = os.path.join(agent_dir, 'demo.py')
    if not (os.path.exists(patch) and os.path.exists(demo)):
        return name, {'error': 'deliverables missing'}
    meta = {'name': name, 'property': prop, 'ran': []}
    scratch = '/tmp/wt/confirm_%s' % name
    sh('git -C /repo worktree remove --force %s' % scratch)
    rc, out = sh('git -C /repo worktree add -q --detach %s HEAD' % scratch)
    if rc != 0:
        return name, {'error': out}
    evd = tempfile.mkdtemp(prefix='ev_%s_' % name)
    try:
        rc0, out0 = sh('%s %s' % (PY, demo), cwd=scratch)
        meta['demo_without_change'] = {'exit': rc0, 'tail': out0.strip().split('\n')[-3:]}
        rc, out = sh('git apply %s' % patch, cwd=scratch)
        if rc != 0:
            return name, {'error': 'patch does not apply: %s' % out}
        rc1, out1 = sh('%s %s' % (PY, demo), cwd=scratch)
        meta['demo_with_change'] = {'exit': rc1, 'tail': out1.strip().split('\n')[-4:]}
        rct, outt = sh('%s -m pytest -q -p no:cacheprovider --timeout=900 2>&1' % PY, cwd=scratch)
        failed = [l for l in outt.split('\n') if l.startswith('FAILED')]
        meta['tests_with_change'] = {'failed': failed, 'tail': outt.strip().split('\n')[-1:]}
        meta['ran'] += ['demo.py in a clean scratch worktree', 'git apply patch.diff', 'demo.py with the change',
                        'full test suite with the change', 'all 20 checks with HSZINC_REPO=<scratch worktree>']
        ok_tests = all('test_oddball_version' in f for f in failed) and 'passed' in outt
        meta['confirmed'] = bool(rc0 == 0 and rc1 != 0 and ok_tests)
        detected = {}
        env = dict(os.environ, HSZINC_REPO=scratch, VERIF_EVIDENCE_DIR=evd)
        for i in range(1, 21):
            pid = 'C%02d' % i
            rc, out = sh('%s check.py %s' % (PY, pid), cwd=VERIF, env=env)
            if rc != 0:
                lines = [l for l in out.split('\n') if l.startswith(('VIOLATION', '  rule=', '  witness', 'ANALYSIS-ERROR'))]
                detected[pid] = {'exit': rc, 'lines': [l.replace(evd, '<evidence>') for l in lines[:6]]}
    finally:
        sh('git -C /repo worktree remove --force %s' % scratch)
        shutil.rmtree(evd, ignore_errors=True)
    meta['checks_not_silent'] = detected
    meta['caught_by_own_property'] = detected.get(prop, {}).get('exit') == 1
    meta['caught_by'] = sorted(k for k, v in detected.items() if v['exit'] == 1)
    meta['analysis_errors'] = sorted(k for k, v in detected.items() if v['exit'] == 2)
    if meta['confirmed']:
        dst = os.path.join(VERIF, 'seeded', name)
        os.makedirs(dst, exist_ok=True)
        shutil.copy(patch, os.path.join(dst, 'patch.diff'))
        shutil.copy(demo, os.path.join(dst, 'demo.py'))
        if os.path.exists(os.path.join(agent_dir, 'notes.md')):
            shutil.copy(os.path.join(agent_dir, 'notes.md'), os.path.join(dst, 'notes.md'))
        json.dump(meta, open(os.path.join(dst, 'meta.json'), 'w'), indent=1)
    return name, meta


def main():
    specs = sys.argv[1:]
    with ThreadPoolExecutor(max_workers=8) as ex:
        for name, meta in ex.map(one, specs):
            if 'error' in meta:
                print('%s ERROR %s' % (name, meta['error'][:200]))
                continue
            own = 'OWN' if meta['caught_by_own_property'] else 'own-miss'
            print('%s confirmed=%s %s caught_by=%s errors=%s' % (name, meta['confirmed'], own, ','.join(meta['caught_by']),
                                                                  ','.join(meta['analysis_errors'])))
            if not meta['confirmed']:
                print('    demo without: %s | with: %s | tests: %s' % (meta['demo_without_change'], meta['demo_with_change']['exit'],
                                                                    meta['tests_with_change']))
            for k, v in meta['checks_not_silent'].items():
                for l in v['lines'][:3]:
                    if l.startswith(('  rule=', 'ANALYSIS-ERROR')):
                        print('      %s %s' % (k, l.strip()[:200]))


if __name__ == '__main__':
    main()
