#!/venv/bin/python
"""refactor_fuzz.py [--props C01,C02] [--jobs 16] [--kinds T1,T2,...]

False-alarm self-test.  Applies behaviour-preserving AST rewrites to one function of /repo/hszinc at a time
(in memory, through Model overrides -- nothing is written to /repo) and runs every check that consults the
module.  A check may answer HOLDS (exit-0 class) or ANALYSIS-ERROR (cannot decide) on such a variant; a new
VIOLATION is a false alarm of the machinery and is listed.

  T1 rename every purely local variable of the function
  T2 invert if/else:  if c: A else: B   ->  if not (c): B else: A
  T3 name the returned value:  return e  ->  _rv = e; return _rv
  T4 split conjunctions without else:  if a and b: S  ->  if a: if b: S
  T5 whole module re-emitted by ast.unparse (layout, quotes, comments gone)
"""
import ast
import copy
import os
import sys
import time
from multiprocessing import Pool

HERE = os.path.dirname(os.path.dirname(os.path.abspath(__file__)))
sys.path.insert(0, HERE)
import check  # noqa: E402
from hsverify import model  # noqa: E402


def own_nodes(fn):
    """nodes of fn's own scope (not of nested defs / lambdas / comprehensions / classes)"""
    out = []
    stack = list(ast.iter_child_nodes(fn))
    while stack:
        n = stack.pop()
        out.append(n)
        if isinstance(n, (ast.FunctionDef, ast.AsyncFunctionDef, ast.Lambda, ast.ClassDef, ast.ListComp, ast.SetComp,
                          ast.DictComp, ast.GeneratorExp)):
            continue
        stack.extend(ast.iter_child_nodes(n))
    return out


def t1_rename(fn):
    params = {a.arg for a in fn.args.args + fn.args.kwonlyargs + fn.args.posonlyargs}
    if fn.args.vararg:
        params.add(fn.args.vararg.arg)
    if fn.args.kwarg:
        params.add(fn.args.kwarg.arg)
    own = own_nodes(fn)
    declared = set()
    for n in own:
        if isinstance(n, (ast.Global, ast.Nonlocal)):
            declared |= set(n.names)
    stored = {n.id for n in own if isinstance(n, ast.Name) and isinstance(n.ctx, (ast.Store, ast.Del))}
    for n in own:
        if isinstance(n, ast.ExceptHandler) and n.name:
            stored.discard(n.name)
            declared.add(n.name)
        if isinstance(n, (ast.Import, ast.ImportFrom)):
            for a in n.names:
                declared.add((a.asname or a.name).split('.')[0])
    cand = stored - params - declared
    # names also used in nested scopes (closures, comprehensions) stay
    nested_used = set()
    own_ids = {id(n) for n in own}
    for n in ast.walk(fn):
        if isinstance(n, ast.Name) and id(n) not in own_ids:
            nested_used.add(n.id)
    cand -= nested_used
    # strings that mention the name (exec templates, format by name) -> keep
    for n in ast.walk(fn):
        if isinstance(n, ast.Constant) and isinstance(n.value, str):
            cand = {c for c in cand if c not in n.value}
    if not cand:
        return False
    for n in own:
        if isinstance(n, ast.Name) and n.id in cand:
            n.id = n.id + '_v'
    return True


def t2_invert(fn):
    done = False
    for n in own_nodes(fn):
        if isinstance(n, ast.If) and n.orelse and not (len(n.orelse) == 1 and isinstance(n.orelse[0], ast.If)):
            p = getattr(n, '_parent', None)
            if isinstance(p, ast.If) and p.orelse == [n]:
                continue        # this is itself an elif arm
            n.test = ast.UnaryOp(op=ast.Not(), operand=n.test)
            n.body, n.orelse = n.orelse, n.body
            done = True
    return done


def t3_name_return(fn):
    done = False

    def rewrite(body):
        nonlocal done
        i = 0
        while i < len(body):
            st = body[i]
            if isinstance(st, ast.Return) and st.value is not None and not isinstance(st.value, (ast.Name, ast.Constant)):
                body[i:i + 1] = [ast.Assign(targets=[ast.Name(id='_rv', ctx=ast.Store())], value=st.value, lineno=st.lineno),
                                 ast.Return(value=ast.Name(id='_rv', ctx=ast.Load()))]
                done = True
                i += 2
                continue
            for field in ('body', 'orelse', 'finalbody'):
                sub = getattr(st, field, None)
                if isinstance(sub, list) and not isinstance(st, (ast.FunctionDef, ast.ClassDef, ast.AsyncFunctionDef)):
                    rewrite(sub)
            if isinstance(st, ast.Try):
                for h in st.handlers:
                    rewrite(h.body)
            i += 1
    rewrite(fn.body)
    return done


def t4_split_and(fn):
    done = False
    for n in own_nodes(fn):
        if isinstance(n, ast.If) and not n.orelse and isinstance(n.test, ast.BoolOp) and isinstance(n.test.op, ast.And) \
                and len(n.test.values) == 2:
            a, b = n.test.values
            inner = ast.If(test=b, body=n.body, orelse=[])
            n.test = a
            n.body = [inner]
            done = True
    return done


KINDS = {'T1': t1_rename, 'T2': t2_invert, 'T3': t3_name_return, 'T4': t4_split_and}


def variants(modname, text, kinds):
    tree = ast.parse(text)
    fns = []
    for n in ast.walk(tree):
        if isinstance(n, ast.FunctionDef):
            fns.append(n)
    # qualified names
    for parent in ast.walk(tree):
        for ch in ast.iter_child_nodes(parent):
            ch._parent = parent
    out = []
    for idx in range(len(fns)):
        for k in kinds:
            if k not in KINDS:
                continue
            t = ast.parse(text)
            for parent in ast.walk(t):
                for ch in ast.iter_child_nodes(parent):
                    ch._parent = parent
            f = [n for n in ast.walk(t) if isinstance(n, ast.FunctionDef)][idx]
            q = f.name
            p = getattr(f, '_parent', None)
            while p is not None and not isinstance(p, ast.Module):
                if isinstance(p, (ast.ClassDef, ast.FunctionDef)):
                    q = p.name + '.' + q
                p = getattr(p, '_parent', None)
            if KINDS[k](f):
                ast.fix_missing_locations(t)
                try:
                    src = ast.unparse(t)
                    compile(src, modname, 'exec')
                except Exception:
                    continue
                out.append(('%s:%s:%s' % (modname, q, k), src))
    if 'T5' in kinds:
        out.append(('%s:*:T5' % modname, ast.unparse(tree)))
    return out


def run_one(args):
    label, modname, src, props = args
    res = {}
    for prop in props:
        ctx, _, _ = check.run_property(prop, 'quick', 0, overrides={modname: src})
        viol = [(f.rule, f.construct, (f.witness or '')[:100]) for f in ctx.findings]
        res[prop] = (viol, [e['error'][:140] for e in ctx.errors])
    return label, res


def main(argv):
    props = check.PROPS
    jobs = 16
    kinds = ['T1', 'T2', 'T3', 'T4', 'T5']
    if '--props' in argv:
        props = argv[argv.index('--props') + 1].split(',')
    if '--jobs' in argv:
        jobs = int(argv[argv.index('--jobs') + 1])
    if '--kinds' in argv:
        kinds = argv[argv.index('--kinds') + 1].split(',')
    only_mod = argv[argv.index('--module') + 1] if '--module' in argv else None
    # which modules does each property consult?  (base run; must be clean)
    consult = {}
    base = {}
    for prop in props:
        ctx, _, _ = check.run_property(prop, 'quick', 0)
        consult[prop] = set(getattr(ctx.model, 'consulted', ()))
        base[prop] = ({(f.rule, f.construct) for f in ctx.findings}, len(ctx.errors))
    m = model.Model()
    tasks = []
    for modname, mod in sorted(m.modules.items()):
        if only_mod and modname != only_mod:
            continue
        ps = [p for p in props if modname in consult[p]]
        if not ps:
            continue
        for label, src in variants(modname, mod.text, kinds):
            tasks.append((label, modname, src, ps))
    print('%d variants x their properties (%d jobs)' % (len(tasks), jobs))
    t0 = time.time()
    n_v = n_e = n_ok = 0
    with Pool(jobs) as pool:
        for label, res in pool.imap_unordered(run_one, tasks, chunksize=2):
            for prop, (viol, errs) in sorted(res.items()):
                bk, be = base[prop]
                newv = [v for v in (viol or []) if (v[0], v[1]) not in bk]
                if newv:
                    n_v += 1
                    print('FALSE-ALARM %s %s %s | %s' % (prop, label, newv[0][0], newv[0][2]))
                elif len(errs) > be:
                    n_e += 1
                    print('cannot-decide %s %s | %s' % (prop, label, errs[-1]))
                else:
                    n_ok += 1
    print('%d runs: %d silent, %d cannot-decide, %d FALSE ALARMS (%.0fs)' % (n_ok + n_e + n_v, n_ok, n_e, n_v, time.time() - t0))
    return 1 if n_v else 0


if __name__ == '__main__':
    sys.exit(main(sys.argv[1:]))
