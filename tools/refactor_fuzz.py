#!/venv/bin/python
"""refactor_fuzz.py [--props C01,C02] [--jobs 16] [--kinds T1,T2,...]

False-alarm self-test.  Applies behaviour-preserving AST rewrites to one function of /repo/hszinc at a time
(in memory, through Model overrides -- nothing is written to /repo) and runs every check that consults the
module.  A check may answer HOLDS (exit-0 class) or ANALYSIS-ERROR (cannot decide) on such a variant; a new
VIOLATION is a false alarm of the machinery and is listed.

  T1 rename every purely local variable of the function
  T2 invert if/else:  if c: A else: B   ->  if not (c): B else: A
  T3 name the returned value:  return e  ->  _rv = e; return _rv
  T4 split conjunctions without else:  if a and b: S  ->  if a: if b: S
  T5 whole module re-emitted by ast.unparse (layout, quotes, comments gone)
  T6 drop else after a body that always leaves;  T7 the inverse (what follows becomes the else)
  T8 first call argument extracted into a local:  f(g(x))  ->  _a0 = g(x); f(_a0)
  T9 two adjacent independent call-free assignments swapped;  T10 `else: pass` added to every if without else
  T11-T17 see hsverify/selftest.py;  T18 %-format -> f-string;  T19 isinstance tuple -> disjunction;  T20 ternary -> if;
  T21 keyword -> positional arguments of same-module calls
"""
import ast
import copy
import os
import sys
import time
from multiprocessing import Pool

HERE = os.path.dirname(os.path.dirname(os.path.abspath(__file__)))
sys.path.insert(0, HERE)
import check  # noqa: E402
from hsverify import model  # noqa: E402


from hsverify.selftest import variants, KINDS  # noqa: E402,F401


def run_one(args):
    label, modname, src, props = args
    res = {}
    for prop in props:
        ctx, _, _ = check.run_property(prop, 'quick', 0, overrides={modname: src})
        viol = [(f.rule, f.construct, (f.witness or '')[:100]) for f in ctx.findings]
        res[prop] = (viol, [e['error'][:140] for e in ctx.errors])
    return label, res


def main(argv):
    props = check.PROPS
    jobs = 16
    kinds = ['T1', 'T2', 'T3', 'T4', 'T5', 'T6', 'T7', 'T8', 'T9', 'T10', 'T11', 'T12', 'T13', 'T14', 'T15', 'T16', 'T17', 'T18', 'T19', 'T20', 'T21']
    if '--props' in argv:
        props = argv[argv.index('--props') + 1].split(',')
    if '--jobs' in argv:
        jobs = int(argv[argv.index('--jobs') + 1])
    if '--kinds' in argv:
        kinds = argv[argv.index('--kinds') + 1].split(',')
    only_mod = argv[argv.index('--module') + 1] if '--module' in argv else None
    # which modules does each property consult?  (base run; must be clean)
    consult = {}
    base = {}
    for prop in props:
        ctx, _, _ = check.run_property(prop, 'quick', 0)
        consult[prop] = set(getattr(ctx.model, 'consulted', ()))
        base[prop] = ({(f.rule, f.construct) for f in ctx.findings}, len(ctx.errors))
    m = model.Model()
    tasks = []
    for modname, mod in sorted(m.modules.items()):
        if only_mod and modname != only_mod:
            continue
        ps = [p for p in props if modname in consult[p]]
        if not ps:
            continue
        for label, src in variants(modname, mod.text, kinds):
            tasks.append((label, modname, src, ps))
    print('%d variants x their properties (%d jobs)' % (len(tasks), jobs))
    t0 = time.time()
    n_v = n_e = n_ok = 0
    with Pool(jobs) as pool:
        for label, res in pool.imap_unordered(run_one, tasks, chunksize=2):
            for prop, (viol, errs) in sorted(res.items()):
                bk, be = base[prop]
                newv = [v for v in (viol or []) if (v[0], v[1]) not in bk]
                if newv:
                    n_v += 1
                    print('FALSE-ALARM %s %s %s | %s' % (prop, label, newv[0][0], newv[0][2]))
                elif len(errs) > be:
                    n_e += 1
                    print('cannot-decide %s %s | %s' % (prop, label, errs[-1]))
                else:
                    n_ok += 1
    print('%d runs: %d silent, %d cannot-decide, %d FALSE ALARMS (%.0fs)' % (n_ok + n_e + n_v, n_ok, n_e, n_v, time.time() - t0))
    return 1 if n_v else 0


if __name__ == '__main__':
    sys.exit(main(sys.argv[1:]))
