#!/venv/bin/python
"""mutation_screen.py [--modules a,b] [--jobs 16] [--out DIR] [--limit N]

Mechanical mutation screening of /repo/hszinc (development aid; never touches /repo).

For every syntactic mutant (comparison / boolean / arithmetic operator swaps, negated tests, small constant
changes, dropped statements, slice bounds) of every module:
  1. the mutant is written into a scratch copy of the repository and the pinned test suite is run (-x);
     mutants the suite kills are dropped;
  2. for the survivors all 20 checks are run against the scratch copy (HSZINC_REPO, evidence redirected).
The report lists, per survivor, which checks answered VIOLATION / ANALYSIS-ERROR.  Survivors on which every check
stays silent are the interesting ones: either the mutant is equivalent / outside the 20 properties, or a rule is
missing.  They are triaged by hand; nothing here is part of a registered check.
"""
import ast
import copy
import json
import os
import shutil
import subprocess
import sys
import tempfile
import time
from multiprocessing import Pool

VERIF = os.path.dirname(os.path.dirname(os.path.abspath(__file__)))
PY = '/venv/bin/python'
REPO = '/repo'

CMP_SWAP = {ast.Lt: ast.LtE, ast.LtE: ast.Lt, ast.Gt: ast.GtE, ast.GtE: ast.Gt, ast.Eq: ast.NotEq, ast.NotEq: ast.Eq,
            ast.Is: ast.IsNot, ast.IsNot: ast.Is, ast.In: ast.NotIn, ast.NotIn: ast.In}
BIN_SWAP = {ast.Add: ast.Sub, ast.Sub: ast.Add, ast.Mult: ast.Div, ast.Div: ast.Mult, ast.FloorDiv: ast.Div,
            ast.Mod: ast.Mult, ast.LShift: ast.RShift, ast.RShift: ast.LShift, ast.BitAnd: ast.BitOr, ast.BitOr: ast.BitAnd}


def sites(tree):
    """yield (kind, node index in ast.walk order, description) for every mutation site"""
    nodes = list(ast.walk(tree))
    docstrings = set()
    for n in nodes:
        if isinstance(n, (ast.FunctionDef, ast.ClassDef, ast.Module)) and n.body and isinstance(n.body[0], ast.Expr) \
                and isinstance(n.body[0].value, ast.Constant) and isinstance(n.body[0].value.value, str):
            docstrings.add(id(n.body[0].value))
    for i, n in enumerate(nodes):
        if isinstance(n, ast.Compare):
            for k, op in enumerate(n.ops):
                if type(op) in CMP_SWAP:
                    yield ('cmp', i, k, '%s -> %s' % (type(op).__name__, CMP_SWAP[type(op)].__name__))
        elif isinstance(n, ast.BoolOp):
            yield ('bool', i, 0, '%s -> %s' % (type(n.op).__name__, 'Or' if isinstance(n.op, ast.And) else 'And'))
        elif isinstance(n, ast.BinOp) and type(n.op) in BIN_SWAP and not (
                isinstance(n.op, ast.Mod) and isinstance(n.left, ast.Constant) and isinstance(n.left.value, str)):
            yield ('bin', i, 0, '%s -> %s' % (type(n.op).__name__, BIN_SWAP[type(n.op)].__name__))
        elif isinstance(n, (ast.If, ast.While)):
            yield ('negate', i, 0, 'negate test')
        elif isinstance(n, ast.IfExp):
            yield ('negate', i, 0, 'negate test (ifexp)')
        elif isinstance(n, ast.Constant) and id(n) not in docstrings:
            if isinstance(n.value, bool):
                yield ('const', i, 0, '%r -> %r' % (n.value, not n.value))
            elif isinstance(n.value, int) and -2 <= n.value <= 16:
                yield ('const', i, 1, '%r -> %r' % (n.value, n.value + 1))
                if n.value != 0:
                    yield ('const', i, -1, '%r -> %r' % (n.value, n.value - 1))
        elif isinstance(n, ast.UnaryOp) and isinstance(n.op, ast.Not):
            yield ('unnot', i, 0, 'drop not')
        elif isinstance(n, ast.Slice):
            if n.lower is not None and isinstance(n.lower, ast.Constant) and isinstance(n.lower.value, int):
                pass   # covered by const
        if isinstance(n, (ast.FunctionDef, ast.For, ast.While, ast.If, ast.With, ast.Try, ast.ExceptHandler)):
            for field in ('body', 'orelse', 'finalbody'):
                b = getattr(n, field, None)
                if not isinstance(b, list):
                    continue
                for k, st in enumerate(b):
                    if isinstance(st, (ast.Expr, ast.Assign, ast.AugAssign, ast.Delete)) and id(getattr(st, 'value', None)) not in docstrings \
                            and len(b) > 1:
                        yield ('drop', i, (field, k), 'drop `%s`' % ast.unparse(st).split('\n')[0][:60])
                    elif isinstance(st, ast.Continue):
                        yield ('cont', i, (field, k), 'continue -> break')
                    elif isinstance(st, ast.Break):
                        yield ('cont', i, (field, k), 'break -> continue')
        if isinstance(n, ast.Call) and norm_func(n) in ('Or', 'And', 'MatchFirst', 'pp.Or', 'pp.And') and n.args \
                and isinstance(n.args[0], ast.List) and len(n.args[0].elts) >= 2:
            for k in range(len(n.args[0].elts)):
                yield ('listdrop', i, k, 'drop element %d of %s([...])' % (k, norm_func(n)))
            for k in range(len(n.args[0].elts) - 1):
                yield ('listswap', i, k, 'swap elements %d,%d of %s([...])' % (k, k + 1, norm_func(n)))
        if isinstance(n, ast.Call) and norm_func(n) in ('re.compile', 'Regex', 'pp.Regex') and n.args \
                and isinstance(n.args[0], ast.Constant) and isinstance(n.args[0].value, str):
            for k, (desc, _) in enumerate(regex_mutants(n.args[0].value)):
                yield ('regex', i, k, 'regex %s' % desc)
        if isinstance(n, ast.Constant) and isinstance(n.value, str) and id(n) not in docstrings and 0 < len(n.value) <= 40:
            for k, (desc, _) in enumerate(string_mutants(n.value)):
                yield ('strc', i, k, 'string %s' % desc)
        if isinstance(n, ast.Attribute) and n.attr in ATTR_SWAP and isinstance(n.ctx, ast.Load):
            yield ('attr', i, 0, '.%s -> .%s' % (n.attr, ATTR_SWAP[n.attr]))
        if isinstance(n, ast.Return) and n.value is not None and not isinstance(n.value, ast.Constant):
            yield ('retnone', i, 0, 'return None instead of `%s`' % ast.unparse(n.value)[:40])
        if isinstance(n, ast.Call) and len(n.args) == 2 and not n.keywords and not any(isinstance(a, ast.Starred) for a in n.args) \
                and ast.unparse(n.args[0]) != ast.unparse(n.args[1]):
            yield ('argswap', i, 0, 'swap arguments of %s' % norm_func(n)[:30])
        if isinstance(n, ast.Call) and n.keywords:
            for k, kw in enumerate(n.keywords):
                if kw.arg in ('version', 'replace', 'after', 'index', 'pos_key', 'maxsplit', 'parseAll', 'grid', 'has_value'):
                    yield ('dropkw', i, k, 'drop keyword %s=' % kw.arg)


ATTR_SWAP = {'metadata': 'column', 'column': 'metadata', 'latitude': 'longitude', 'longitude': 'latitude', 'name': 'value',
             'value': 'unit', 'unit': 'value', 'keys': 'values', 'items': 'keys', 'hour': 'minute', 'minute': 'second',
             'year': 'month', 'month': 'day', 'version': 'nearest_version', '_version': 'nearest_version',
             'append': 'extend', 'astimezone': 'replace', 'lower': 'upper', '_order': '_values', 'encoding': 'data'}


def string_mutants(sv):
    import re as _re
    out = []
    for a, b in (('%f', '%g'), ('%f', '%s'), ('%r', '%s'), ('%s', '%r'), ('%04x', '%x'), ('%04x', '%02x'), ('%d', '%s')):
        if a in sv:
            i = sv.index(a)
            out.append(('%r: %s->%s' % (sv[:12], a, b), sv[:i] + b + sv[i + len(a):]))
    if _re.match(r'^[a-z\-]:$', sv) or _re.match(r'^[a-z\-]:%', sv):
        out.append(('%r: prefix letter changed' % sv[:12], ('q' if sv[0] != 'q' else 'w') + sv[1:]))
    if len(sv) == 1 and sv in ',;: \n@`"' + "'":
        out.append(('%r -> %r' % (sv, ' ' if sv != ' ' else ','), ' ' if sv != ' ' else ','))
    if len(sv) >= 2 and sv.isalpha():
        out.append(('%r: last letter dropped' % sv[:12], sv[:-1]))
    if sv in ('INF', '-INF', 'NaN', 'T', 'F', 'N', 'M', 'R', 'NA'):
        out.append(('%r lower-cased' % sv, sv.lower()))
    return out


def norm_func(n):
    try:
        return ast.unparse(n.func)
    except Exception:
        return ''


def regex_mutants(pat):
    """small textual edits of a regex source that keep it compilable (checked by the caller)"""
    import re as _re
    out = []
    for m_ in _re.finditer(r'(?<!\\\\)[+*?]', pat):
        ch = m_.group(0)
        i = m_.start()
        if ch == '+':
            out.append(('`+`->`*` at %d' % i, pat[:i] + '*' + pat[i + 1:]))
        elif ch == '*':
            out.append(('`*`->`+` at %d' % i, pat[:i] + '+' + pat[i + 1:]))
        elif ch == '?' and i > 0 and pat[i - 1] not in '(':
            out.append(('drop `?` at %d' % i, pat[:i] + pat[i + 1:]))
    for m_ in _re.finditer(r'\\\\d', pat):
        out.append(('\\d->\\w at %d' % m_.start(), pat[:m_.start()] + '\\w' + pat[m_.end():]))
    for m_ in _re.finditer(r'\{(\d+)\}', pat):
        k = int(m_.group(1))
        out.append(('{%d}->{%d} at %d' % (k, k + 1, m_.start()), pat[:m_.start()] + '{%d}' % (k + 1) + pat[m_.end():]))
        if k > 1:
            out.append(('{%d}->{%d} at %d' % (k, k - 1, m_.start()), pat[:m_.start()] + '{%d}' % (k - 1) + pat[m_.end():]))
    for m_ in _re.finditer(r'\[([^\]\\\\]{2,})\]', pat):
        body = m_.group(1)
        if '-' in body[1:-1] or body.startswith('^'):
            continue
        out.append(('drop first char of class at %d' % m_.start(), pat[:m_.start() + 1] + body[1:] + pat[m_.end() - 1:]))
    if pat.startswith('^'):
        out.append(('drop leading ^', pat[1:]))
    if pat.endswith('$'):
        out.append(('drop trailing $', pat[:-1]))
    good = []
    for d, p_ in out:
        try:
            _re.compile(p_)
            good.append((d, p_))
        except Exception:
            pass
    return good


def apply(tree, site):
    kind, i, k, desc = site
    t = copy.deepcopy(tree)
    n = list(ast.walk(t))[i]
    if kind == 'cmp':
        n.ops[k] = CMP_SWAP[type(n.ops[k])]()
    elif kind == 'bool':
        n.op = ast.Or() if isinstance(n.op, ast.And) else ast.And()
    elif kind == 'bin':
        n.op = BIN_SWAP[type(n.op)]()
    elif kind == 'negate':
        n.test = ast.UnaryOp(op=ast.Not(), operand=n.test)
    elif kind == 'const':
        n.value = (not n.value) if isinstance(n.value, bool) else n.value + k
    elif kind == 'unnot':
        # replace the node's fields in place: not x -> x  (keep identity by turning into `not not x`?  simpler: double)
        n.operand = ast.UnaryOp(op=ast.Not(), operand=n.operand)
    elif kind == 'drop':
        field, idx = k
        getattr(n, field)[idx] = ast.Pass()
    elif kind == 'cont':
        field, idx = k
        b = getattr(n, field)
        b[idx] = ast.Break() if isinstance(b[idx], ast.Continue) else ast.Continue()
    elif kind == 'dropkw':
        del n.keywords[k]
    elif kind == 'listdrop':
        del n.args[0].elts[k]
    elif kind == 'listswap':
        e = n.args[0].elts
        e[k], e[k + 1] = e[k + 1], e[k]
    elif kind == 'regex':
        n.args[0].value = regex_mutants(n.args[0].value)[k][1]
    elif kind == 'strc':
        n.value = string_mutants(n.value)[k][1]
    elif kind == 'attr':
        n.attr = ATTR_SWAP[n.attr]
    elif kind == 'retnone':
        n.value = ast.Constant(value=None)
    elif kind == 'argswap':
        n.args[0], n.args[1] = n.args[1], n.args[0]
    ast.fix_missing_locations(t)
    return ast.unparse(t)


_WORK = None


def _workdir():
    global _WORK
    if _WORK is None:
        _WORK = tempfile.mkdtemp(prefix='mutscreen_w_')
        subprocess.run('cp -r %s/hszinc %s/tests %s/ 2>/dev/null; cp %s/setup.py %s/setup.cfg %s/pytest.ini %s/tox.ini %s/ 2>/dev/null'
                       % (REPO, REPO, _WORK, REPO, REPO, REPO, REPO, _WORK), shell=True)
    return _WORK


def run_mutant(job):
    modname, lineno, desc, src, out = job
    w = _workdir()
    path = os.path.join(w, 'hszinc', modname + '.py')
    orig = open(path, encoding='utf-8').read()
    res = {'module': modname, 'line': lineno, 'mutation': desc}
    try:
        try:
            compile(src, path, 'exec')
        except SyntaxError:
            res['status'] = 'invalid'
            return res
        open(path, 'w', encoding='utf-8').write(src)
        t0 = time.time()
        try:
            p = subprocess.run('%s -m pytest -x -q -p no:cacheprovider --timeout=120 '
                               '--deselect "tests/test_parser.py::test_oddball_version" 2>&1 | tail -3' % PY,
                               shell=True, cwd=w, capture_output=True, text=True, timeout=400)
            tail = p.stdout.strip().split('\n')[-1] if p.stdout.strip() else ''
        except subprocess.TimeoutExpired:
            res['status'] = 'killed (timeout)'
            return res
        res['test_secs'] = round(time.time() - t0, 1)
        if ' passed' in tail and 'failed' not in tail and 'error' not in tail.lower():
            res['status'] = 'survived'
        else:
            res['status'] = 'killed'
            return res
        evd = tempfile.mkdtemp(prefix='mutev_')
        env = dict(os.environ, HSZINC_REPO=w, VERIF_EVIDENCE_DIR=evd)
        fired, errs = [], []
        for i in range(1, 21):
            pid = 'C%02d' % i
            q = subprocess.run('%s check.py %s' % (PY, pid), shell=True, cwd=VERIF, env=env, capture_output=True, text=True)
            if q.returncode == 1:
                rule = [l.strip() for l in q.stdout.split('\n') if l.startswith('  rule=')][:1]
                fired.append('%s(%s)' % (pid, rule[0].split(' ')[0][5:] if rule else '?'))
            elif q.returncode != 0:
                errs.append(pid)
        shutil.rmtree(evd, ignore_errors=True)
        res['fired'] = fired
        res['errors'] = errs
        if out and not fired:
            name = '%s_%d_%s.py' % (modname, lineno, ''.join(c if c.isalnum() else '_' for c in desc)[:40])
            open(os.path.join(out, name), 'w', encoding='utf-8').write(src)
            res['saved'] = name
        return res
    finally:
        open(path, 'w', encoding='utf-8').write(orig)


def main(argv):
    jobs_n = int(argv[argv.index('--jobs') + 1]) if '--jobs' in argv else 16
    out = argv[argv.index('--out') + 1] if '--out' in argv else '/tmp/mutscreen'
    limit = int(argv[argv.index('--limit') + 1]) if '--limit' in argv else None
    mods = argv[argv.index('--modules') + 1].split(',') if '--modules' in argv else None
    ops = set(argv[argv.index('--ops') + 1].split(',')) if '--ops' in argv else None
    os.makedirs(out, exist_ok=True)
    jobs = []
    for f in sorted(os.listdir(os.path.join(REPO, 'hszinc'))):
        if not f.endswith('.py'):
            continue
        modname = f[:-3]
        if mods and modname not in mods:
            continue
        text = open(os.path.join(REPO, 'hszinc', f), encoding='utf-8').read()
        tree = ast.parse(text)
        nodes = list(ast.walk(tree))
        for site in sites(tree):
            if ops and site[0] not in ops:
                continue
            try:
                src = apply(tree, site)
            except Exception:
                continue
            n = nodes[site[1]]
            jobs.append((modname, getattr(n, 'lineno', 0), '%s: %s' % (site[0], site[3]), src, out))
    if limit:
        jobs = jobs[:limit]
    print('%d mutants' % len(jobs))
    sys.stdout.flush()
    t0 = time.time()
    results = []
    with Pool(jobs_n) as pool:
        for r in pool.imap_unordered(run_mutant, jobs):
            results.append(r)
            if r.get('status') == 'survived':
                print('%-14s %4d %-46s fired=%s errors=%s' % (r['module'], r['line'], r['mutation'][:46], ','.join(r['fired']) or '-',
                                                           ','.join(r['errors']) or '-'))
                sys.stdout.flush()
    json.dump(results, open(os.path.join(out, 'results.json'), 'w'), indent=1)
    surv = [r for r in results if r.get('status') == 'survived']
    silent = [r for r in surv if not r['fired'] and not r['errors']]
    print('%d mutants: %d killed by the test suite, %d survived; of the survivors %d reported by a check, %d analysis-error only, '
          '%d silent (%.0fs)' % (len(results), len([r for r in results if r.get('status', '').startswith('killed')]), len(surv),
                                 len([r for r in surv if r['fired']]), len([r for r in surv if not r['fired'] and r['errors']]),
                                 len(silent), time.time() - t0))


if __name__ == '__main__':
    main(sys.argv[1:])
