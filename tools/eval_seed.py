#!/venv/bin/python
"""eval_seed.py <name> <agent_dir> <worktree> <property> -- confirm a seeded change (tests pass, demo passes
without / fails with it), run every check against it in /repo (applied and undone straight afterwards),
and store it under /verif/seeded/<name>/."""
import json
import os
import shutil
import subprocess
import sys

name, agent_dir, wt, prop = sys.argv[1:5]
VERIF = os.path.dirname(os.path.dirname(os.path.abspath(__file__)))
PY = '/venv/bin/python'


def sh(cmd, cwd=None, timeout=900):
    p = subprocess.run(cmd, shell=True, cwd=cwd, capture_output=True, text=True, timeout=timeout)
    return p.returncode, (p.stdout + p.stderr)


patch = os.path.join(agent_dir, 'patch.diff')
demo = os.path.join(agent_dir, 'demo.py')
assert os.path.exists(patch) and os.path.exists(demo), 'deliverables missing'
meta = {'name': name, 'property': prop, 'ran': []}
# fresh scratch worktree for confirmation
scratch = '/tmp/wt/confirm_%s' % name
sh('git -C /repo worktree remove --force %s' % scratch)
rc, out = sh('git -C /repo worktree add -q %s HEAD' % scratch)
assert rc == 0, out
try:
    rc0, out0 = sh('%s %s' % (PY, demo), cwd=scratch)
    meta['demo_without_change'] = {'exit': rc0, 'tail': out0.strip().split('\n')[-3:]}
    rc, out = sh('git apply %s' % patch, cwd=scratch)
    assert rc == 0, 'patch does not apply: %s' % out
    rc1, out1 = sh('%s %s' % (PY, demo), cwd=scratch)
    meta['demo_with_change'] = {'exit': rc1, 'tail': out1.strip().split('\n')[-4:]}
    rct, outt = sh('%s -m pytest -q -p no:cacheprovider --timeout=900 -q 2>&1 | tail -4' % PY, cwd=scratch)
    failed = [l for l in outt.split('\n') if l.startswith('FAILED')]
    meta['tests_with_change'] = {'failed': failed}
    meta['ran'] += ['demo.py in a clean scratch worktree', 'git apply patch.diff', 'demo.py with the change',
                    'full test suite with the change']
finally:
    sh('git -C /repo worktree remove --force %s' % scratch)
ok_tests = all('test_oddball_version' in f for f in meta['tests_with_change']['failed'])
meta['confirmed'] = bool(rc0 == 0 and rc1 != 0 and ok_tests)
# run the checks against it in /repo
rc, out = sh('git -C /repo status --porcelain')
assert out.strip() == '', '/repo is dirty'
rc, out = sh('git -C /repo apply %s' % patch)
assert rc == 0, out
detected = {}
try:
    for i in range(1, 21):
        pid = 'C%02d' % i
        rc, out = sh('%s check.py %s' % (PY, pid), cwd=VERIF)
        if rc != 0:
            lines = [l for l in out.split('\n') if l.startswith(('VIOLATION', '  rule=', '  witness', 'ANALYSIS-ERROR'))]
            detected[pid] = {'exit': rc, 'lines': lines[:6]}
finally:
    sh('git -C /repo checkout -- .')
    # restore evidence written while the patch was applied
    sh('git -C %s checkout -- evidence' % VERIF)
meta['checks_not_silent'] = detected
meta['caught_by_own_property'] = detected.get(prop, {}).get('exit') == 1
meta['caught_by'] = sorted(k for k, v in detected.items() if v['exit'] == 1)
meta['analysis_errors'] = sorted(k for k, v in detected.items() if v['exit'] == 2)
dst = os.path.join(VERIF, 'seeded', name)
os.makedirs(dst, exist_ok=True)
shutil.copy(patch, os.path.join(dst, 'patch.diff'))
shutil.copy(demo, os.path.join(dst, 'demo.py'))
if os.path.exists(os.path.join(agent_dir, 'notes.md')):
    shutil.copy(os.path.join(agent_dir, 'notes.md'), os.path.join(dst, 'notes.md'))
json.dump(meta, open(os.path.join(dst, 'meta.json'), 'w'), indent=1)
print(json.dumps({k: meta[k] for k in ('confirmed', 'caught_by', 'analysis_errors')}, indent=1))
for k, v in detected.items():
    print(k, v['exit'])
    for l in v['lines'][:4]:
        print('   ', l[:220])
