#!/venv/bin/python
"""check.py <Cxx> [--tier quick|thorough] | --replay <file> | --all

Static checks of hszinc properties C01..C20 (see DESIGN.md).  Reads /repo/hszinc/*.py
(or $HSZINC_REPO) on every run; never imports or executes the repository.

exit 0: every obligation discharged (KNOWN-FINDING lines for listed genuine defects)
exit 1: VIOLATION property=<id> replay=<path>
exit 2: ANALYSIS-ERROR (checker cannot decide: anchor vanished, unknown construct, floor)
"""
import importlib
import json
import os
import sys
import time
import traceback

HERE = os.path.dirname(os.path.abspath(__file__))
sys.path.insert(0, HERE)

from hsverify import findings, model  # noqa: E402
from hsverify.lang import Unsupported  # noqa: E402

PROPS = ['C%02d' % i for i in range(1, 21)]

COMMON_TRUST = [
    'CPython >= 3.7 data model (operator dispatch, ordered dicts, str/repr of float round-trips)',
    'documented behaviour of pyparsing 3 combinators, re, json, pytz, iso8601 as frozen in /verif/spec',
    'the checker\'s own extractors (guarded by instance floors and sensitivity controls)',
    'MODE_PINT off (the default); kinds are those of spec/kinds.json',
]


def run_property(prop, tier, seed, repo=None, overrides=None, quiet=False):
    t0 = time.time()
    mod = importlib.import_module('hsverify.rules.%s' % prop.lower())
    meta = mod.META
    try:
        m = model.Model(repo, overrides)
    except model.AnalysisError as e:
        m = None
        ctx = findings.Ctx(prop, tier, None, seed)
        ctx.error('model', str(e))
    if m is not None:
        ctx = findings.Ctx(prop, tier, m, seed)
        try:
            mod.run(ctx)
        except (model.AnalysisError, Unsupported) as e:
            ctx.error('analysis', '%s: %s' % (type(e).__name__, e))
        except Exception as e:  # a checker bug must never look like a violation
            tb = traceback.format_exc().strip().split('\n')
            ctx.error('checker-exception', '%s: %s | %s' % (type(e).__name__, e, ' / '.join(tb[-6:])))
    return ctx, meta, t0


def _one_control(args):
    prop, module, text, seed = args
    ctx, _, _ = run_property(prop, 'quick', seed, overrides={module: text})
    return [(f.rule, f.construct, f.stmt, (f.witness or '')[:160]) for f in ctx.findings], [e['error'][:160] for e in ctx.errors]


def run_controls(ctx, prop, seed):
    """thorough tier: every sensitivity control of this property, applied to the tree being checked"""
    from hsverify import controls
    from multiprocessing import Pool
    m = ctx.model
    base_keys = {(f.rule, f.construct, f.stmt) for f in ctx.findings}
    base_err = len(ctx.errors)
    jobs, metas = [], []
    for cprop, module, old, new, expect, rule, name in controls.M:
        if cprop != prop:
            continue
        label = name or (old.strip().split('\n')[0][:50] + ' -> ' + new.strip().split('\n')[0][:40])
        try:
            text = m.mod(module).text
        except model.AnalysisError:
            ctx.controls.append({'control': label, 'applicable': False, 'why': 'module missing'})
            continue
        if old not in text:
            ctx.controls.append({'control': label, 'applicable': False, 'why': 'pattern not in this tree'})
            continue
        jobs.append((prop, module, text.replace(old, new, 1), seed))
        metas.append((label, expect, rule))
    if not jobs:
        return
    try:
        with Pool(min(16, len(jobs))) as pool:
            results = pool.map(_one_control, jobs)
    except Exception as e:  # pragma: no cover
        ctx.error('controls', 'control pool failed: %s' % e)
        return
    fired = 0
    for (label, expect, rule), (finds, errs) in zip(metas, results):
        new = [f for f in finds if (f[0], f[1], f[2]) not in base_keys]
        if rule:
            new_r = [f for f in new if f[0] == rule]
        else:
            new_r = new
        if expect == 'V':
            ok = bool(new_r)
        else:
            ok = not new and len(errs) <= base_err
        ctx.controls.append({'control': label, 'applicable': True, 'expect': 'violation' if expect == 'V' else 'silent',
                             'as_expected': ok, 'reported': ['%s: %s' % (f[0], f[3]) for f in new[:2]],
                             'errors': errs[:1]})
        if ok:
            fired += 1
        elif expect == 'V':
            ctx.error('controls', 'sensitivity control %r did not make the check fire (%s): the checker lost '
                                  'sensitivity' % (label, ('analysis error: ' + errs[0]) if errs else 'silent'))
        else:
            ctx.error('controls', 'behaviour-preserving control %r made the check report %s' % (
                label, new[0][0] if new else errs[:1]))
    ctx.count('sensitivity controls as expected', fired)
    ctx.count('sensitivity controls applicable', len(jobs))


def _one_variant(args):
    prop, module, text, seed = args
    ctx, _, _ = run_property(prop, 'quick', seed, overrides={module: text})
    return [(f.rule, f.construct, (f.witness or '')[:120]) for f in ctx.findings], len(ctx.errors)


def run_selftest(ctx, prop, seed):
    """thorough tier: false-alarm self-test.  Every function of every module this check consulted is rewritten in
    ten behaviour-preserving ways (hsverify/selftest.py); the check must not report anything on a variant that it
    does not report on the tree itself."""
    from hsverify import selftest
    from multiprocessing import Pool
    m = ctx.model
    base = {(f.rule, f.construct) for f in ctx.findings}
    base_err = len(ctx.errors)
    jobs, labels = [], []
    for modname in sorted(getattr(m, 'consulted', ())):
        try:
            text = m.mod(modname).text
        except model.AnalysisError:
            continue
        for label, src in selftest.variants(modname, text, ['T1', 'T2', 'T3', 'T4', 'T5', 'T6', 'T7', 'T8', 'T9', 'T10', 'T11', 'T12', 'T13', 'T14', 'T15', 'T16', 'T17', 'T18', 'T19', 'T20', 'T21']):
            jobs.append((prop, modname, src, seed))
            labels.append(label)
    if not jobs:
        return
    try:
        with Pool(16) as pool:
            results = pool.map(_one_variant, jobs, chunksize=4)
    except Exception as e:  # pragma: no cover
        ctx.error('selftest', 'variant pool failed: %s' % e)
        return
    alarms = undecided = 0
    for label, (finds, nerr) in zip(labels, results):
        new = [f for f in finds if (f[0], f[1]) not in base]
        if new:
            alarms += 1
            ctx.error('selftest', 'behaviour-preserving rewrite %s made the check report %s (%s): the rule is not robust; its '
                                  'verdicts on this tree are not to be trusted' % (label, new[0][0], new[0][2]))
        elif nerr > base_err:
            undecided += 1
    ctx.count('behaviour-preserving variants analysed (self-test)', len(jobs))
    ctx.count('variants answered "cannot decide"', undecided)
    ctx.controls.append({'control': 'false-alarm self-test: %d behaviour-preserving rewrites of %d consulted modules'
                                    % (len(jobs), len(getattr(m, 'consulted', ()))), 'applicable': True, 'expect': 'silent',
                         'as_expected': alarms == 0, 'reported': [], 'errors': []})


def run_seed_regression(ctx, prop, seed):
    """thorough tier: the stored seeded changes of this property (/verif/seeded/<name>/patch.diff), applied in memory to
    the tree being checked; each must make the check report a violation (skipped when a patch no longer applies)."""
    import glob
    import subprocess
    import tempfile
    import shutil
    m = ctx.model
    base = {(f.rule, f.construct, f.stmt) for f in ctx.findings}
    n = caught = 0
    for meta_path in sorted(glob.glob(os.path.join(HERE, 'seeded', '*', 'meta.json'))):
        try:
            meta_ = json.load(open(meta_path))
        except Exception:
            continue
        if meta_.get('property') != prop:
            continue
        d = os.path.dirname(meta_path)
        work = tempfile.mkdtemp(prefix='seedchk_')
        try:
            os.makedirs(os.path.join(work, 'hszinc'))
            for name, mod in m.modules.items():
                with open(os.path.join(work, 'hszinc', name + '.py'), 'w', encoding='utf-8') as f:
                    f.write(mod.text)
            p = subprocess.run('git init -q . && git apply %s' % os.path.join(d, 'patch.diff'), shell=True, cwd=work,
                               capture_output=True, text=True)
            if p.returncode != 0:
                ctx.controls.append({'control': 'seeded change %s' % os.path.basename(d), 'applicable': False,
                                     'why': 'patch does not apply to this tree'})
                continue
            overrides = {}
            for name, mod in m.modules.items():
                t = open(os.path.join(work, 'hszinc', name + '.py'), encoding='utf-8').read()
                if t != mod.text:
                    overrides[name] = t
        finally:
            shutil.rmtree(work, ignore_errors=True)
        c2, _, _ = run_property(prop, 'quick', seed, overrides=overrides)
        new = [f for f in c2.findings if (f.rule, f.construct, f.stmt) not in base]
        n += 1
        ok = bool(new)
        caught += 1 if ok else 0
        ctx.controls.append({'control': 'seeded change %s' % os.path.basename(d), 'applicable': True, 'expect': 'violation',
                             'as_expected': ok, 'reported': ['%s: %s' % (f.rule, (f.witness or '')[:100]) for f in new[:1]],
                             'errors': [e['error'][:120] for e in c2.errors[:1]]})
        if not ok:
            ctx.error('controls', 'seeded change %s is no longer reported: the checker lost sensitivity' % os.path.basename(d))
    ctx.count('seeded changes of this property replayed', n)
    ctx.count('seeded changes reported', caught)


def main(argv):
    if len(argv) >= 2 and argv[0] == '--replay':
        with open(argv[1], encoding='utf-8') as f:
            rec = json.load(f)
        prop = rec['property']
        ctx, meta, t0 = run_property(prop, 'quick', 0)
        hit = [f for f in ctx.findings
               if f.rule == rec['rule'] and f.construct == rec['construct'] and f.stmt == rec['stmt']]
        if hit:
            f = hit[0]
            print('REPRODUCED property=%s rule=%s' % (prop, f.rule))
            print(json.dumps(f.as_dict(), indent=1, ensure_ascii=False, default=str))
            return 1
        print('NOT-REPRODUCED property=%s rule=%s construct=%s (the current tree no longer has it)'
              % (prop, rec['rule'], rec['construct']))
        return 0
    if not argv:
        print(__doc__)
        return 2
    tier = os.environ.get('VERIF_TIER', 'quick')
    if '--tier' in argv:
        tier = argv[argv.index('--tier') + 1]
    try:
        seed = int(os.environ.get('VERIF_SEED', '0'))
    except ValueError:
        seed = 0
    props = PROPS if argv[0] == '--all' else [argv[0].upper()]
    worst = 0
    for prop in props:
        if prop not in PROPS:
            print('unknown property %s' % prop)
            return 2
        ctx, meta, t0 = run_property(prop, tier, seed)
        if tier == 'thorough' and ctx.model is not None:
            try:
                run_controls(ctx, prop, seed)
                run_seed_regression(ctx, prop, seed)
                run_selftest(ctx, prop, seed)
            except Exception as e:  # pragma: no cover
                ctx.error('controls', '%s: %s' % (type(e).__name__, e))
        cmd = '/venv/bin/python check.py %s --tier %s' % (prop, tier)
        rc = findings.finish(ctx, t0, meta['level'], meta['explanation'], meta['rule_text'],
                             COMMON_TRUST + meta.get('trusted_base', []), cmd)
        worst = max(worst, rc) if rc != 1 and worst != 1 else 1
    return worst


if __name__ == '__main__':
    try:
        rc = main(sys.argv[1:])
        sys.stdout.flush()
    except BrokenPipeError:
        try:
            sys.stdout = open(os.devnull, 'w')
        except Exception:
            pass
        rc = 2
    except SystemExit:
        raise
    except Exception as e:  # pragma: no cover
        print('ANALYSIS-ERROR checker crashed: %s: %s' % (type(e).__name__, e))
        traceback.print_exc()
        rc = 2
    sys.exit(rc)
