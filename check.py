#!/venv/bin/python
"""check.py <Cxx> [--tier quick|thorough] | --replay <file> | --all

Static checks of hszinc properties C01..C20 (see DESIGN.md).  Reads /repo/hszinc/*.py
(or $HSZINC_REPO) on every run; never imports or executes the repository.

exit 0: every obligation discharged (KNOWN-FINDING lines for listed genuine defects)
exit 1: VIOLATION property=<id> replay=<path>
exit 2: ANALYSIS-ERROR (checker cannot decide: anchor vanished, unknown construct, floor)
"""
import importlib
import json
import os
import sys
import time
import traceback

HERE = os.path.dirname(os.path.abspath(__file__))
sys.path.insert(0, HERE)

from hsverify import findings, model  # noqa: E402
from hsverify.lang import Unsupported  # noqa: E402

PROPS = ['C%02d' % i for i in range(1, 21)]

COMMON_TRUST = [
    'CPython >= 3.7 data model (operator dispatch, ordered dicts, str/repr of float round-trips)',
    'documented behaviour of pyparsing 3 combinators, re, json, pytz, iso8601 as frozen in /verif/spec',
    'the checker\'s own extractors (guarded by instance floors and sensitivity controls)',
    'MODE_PINT off (the default); kinds are those of spec/kinds.json',
]


def run_property(prop, tier, seed, repo=None, overrides=None, quiet=False):
    t0 = time.time()
    mod = importlib.import_module('hsverify.rules.%s' % prop.lower())
    meta = mod.META
    try:
        m = model.Model(repo, overrides)
    except model.AnalysisError as e:
        m = None
        ctx = findings.Ctx(prop, tier, None, seed)
        ctx.error('model', str(e))
    if m is not None:
        ctx = findings.Ctx(prop, tier, m, seed)
        try:
            mod.run(ctx)
        except (model.AnalysisError, Unsupported) as e:
            ctx.error('analysis', '%s: %s' % (type(e).__name__, e))
        except Exception as e:  # a checker bug must never look like a violation
            tb = traceback.format_exc().strip().split('\n')
            ctx.error('checker-exception', '%s: %s | %s' % (type(e).__name__, e, ' / '.join(tb[-6:])))
    return ctx, meta, t0


def _one_control(args):
    prop, module, text, seed = args
    ctx, _, _ = run_property(prop, 'quick', seed, overrides={module: text})
    return [(f.rule, f.construct, f.stmt, (f.witness or '')[:160]) for f in ctx.findings], [e['error'][:160] for e in ctx.errors]


def run_controls(ctx, prop, seed):
    """thorough tier: every sensitivity control of this property, applied to the tree being checked"""
    from hsverify import controls
    from multiprocessing import Pool
    m = ctx.model
    base_keys = {(f.rule, f.construct, f.stmt) for f in ctx.findings}
    base_err = len(ctx.errors)
    jobs, metas = [], []
    for cprop, module, old, new, expect, rule, name in controls.M:
        if cprop != prop:
            continue
        label = name or (old.strip().split('\n')[0][:50] + ' -> ' + new.strip().split('\n')[0][:40])
        try:
            text = m.mod(module).text
        except model.AnalysisError:
            ctx.controls.append({'control': label, 'applicable': False, 'why': 'module missing'})
            continue
        if old not in text:
            ctx.controls.append({'control': label, 'applicable': False, 'why': 'pattern not in this tree'})
            continue
        jobs.append((prop, module, text.replace(old, new, 1), seed))
        metas.append((label, expect, rule))
    if not jobs:
        return
    try:
        with Pool(min(16, len(jobs))) as pool:
            results = pool.map(_one_control, jobs)
    except Exception as e:  # pragma: no cover
        ctx.error('controls', 'control pool failed: %s' % e)
        return
    fired = 0
    for (label, expect, rule), (finds, errs) in zip(metas, results):
        new = [f for f in finds if (f[0], f[1], f[2]) not in base_keys]
        if rule:
            new_r = [f for f in new if f[0] == rule]
        else:
            new_r = new
        if expect == 'V':
            ok = bool(new_r)
        else:
            ok = not new and len(errs) <= base_err
        ctx.controls.append({'control': label, 'applicable': True, 'expect': 'violation' if expect == 'V' else 'silent',
                             'as_expected': ok, 'reported': ['%s: %s' % (f[0], f[3]) for f in new[:2]],
                             'errors': errs[:1]})
        if ok:
            fired += 1
        elif expect == 'V':
            ctx.error('controls', 'sensitivity control %r did not make the check fire (%s): the checker lost '
                                  'sensitivity' % (label, ('analysis error: ' + errs[0]) if errs else 'silent'))
        else:
            ctx.error('controls', 'behaviour-preserving control %r made the check report %s' % (
                label, new[0][0] if new else errs[:1]))
    ctx.count('sensitivity controls as expected', fired)
    ctx.count('sensitivity controls applicable', len(jobs))


def main(argv):
    if len(argv) >= 2 and argv[0] == '--replay':
        with open(argv[1], encoding='utf-8') as f:
            rec = json.load(f)
        prop = rec['property']
        ctx, meta, t0 = run_property(prop, 'quick', 0)
        hit = [f for f in ctx.findings
               if f.rule == rec['rule'] and f.construct == rec['construct'] and f.stmt == rec['stmt']]
        if hit:
            f = hit[0]
            print('REPRODUCED property=%s rule=%s' % (prop, f.rule))
            print(json.dumps(f.as_dict(), indent=1, ensure_ascii=False, default=str))
            return 1
        print('NOT-REPRODUCED property=%s rule=%s construct=%s (the current tree no longer has it)'
              % (prop, rec['rule'], rec['construct']))
        return 0
    if not argv:
        print(__doc__)
        return 2
    tier = os.environ.get('VERIF_TIER', 'quick')
    if '--tier' in argv:
        tier = argv[argv.index('--tier') + 1]
    try:
        seed = int(os.environ.get('VERIF_SEED', '0'))
    except ValueError:
        seed = 0
    props = PROPS if argv[0] == '--all' else [argv[0].upper()]
    worst = 0
    for prop in props:
        if prop not in PROPS:
            print('unknown property %s' % prop)
            return 2
        ctx, meta, t0 = run_property(prop, tier, seed)
        if tier == 'thorough' and ctx.model is not None:
            try:
                run_controls(ctx, prop, seed)
            except Exception as e:  # pragma: no cover
                ctx.error('controls', '%s: %s' % (type(e).__name__, e))
        cmd = '/venv/bin/python check.py %s --tier %s' % (prop, tier)
        rc = findings.finish(ctx, t0, meta['level'], meta['explanation'], meta['rule_text'],
                             COMMON_TRUST + meta.get('trusted_base', []), cmd)
        worst = max(worst, rc) if rc != 1 and worst != 1 else 1
    return worst


if __name__ == '__main__':
    try:
        rc = main(sys.argv[1:])
        sys.stdout.flush()
    except BrokenPipeError:
        try:
            sys.stdout = open(os.devnull, 'w')
        except Exception:
            pass
        rc = 2
    except SystemExit:
        raise
    except Exception as e:  # pragma: no cover
        print('ANALYSIS-ERROR checker crashed: %s: %s' % (type(e).__name__, e))
        traceback.print_exc()
        rc = 2
    sys.exit(rc)
